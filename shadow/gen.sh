#!/bin/sh
# Generates the two shadow workspaces (base / threads) from the templates.
set -e
cd "$(dirname "$0")"
for flavour in base threads; do
  if [ "$flavour" = threads ]; then
    feat=', features = ["threads"]'
    patch='
[patch.crates-io]
crossbeam-channel = { path = "/verif/crates/crossbeam-channel" }
lsp-server = { path = "/verif/crates/lsp-server" }'
  else
    feat=''
    patch=''
  fi
  mkdir -p $flavour/mos $flavour/mos-core $flavour/simctl
  python3 - "$flavour" "$feat" "$patch" <<'PY'
import sys
fl, feat, patch = sys.argv[1:4]
for src, dst in [("workspace.toml","Cargo.toml"),("mos-core.toml","mos-core/Cargo.toml"),("mos.toml","mos/Cargo.toml"),("simctl.toml","simctl/Cargo.toml")]:
    t = open("tmpl/"+src).read().replace("@SIMRT_FEATURES@", feat).replace("@PATCH@", patch)
    out = fl+"/"+dst
    try:
        if open(out).read() == t: continue
    except FileNotFoundError: pass
    open(out,"w").write(t)
PY
  # lock file: prefer the committed one, else seed from the repository's
  if [ ! -f $flavour/Cargo.lock ]; then
    if [ -f $flavour.lock ]; then cp $flavour.lock $flavour/Cargo.lock; else cp /repo/Cargo.lock $flavour/Cargo.lock; fi
  fi
done
