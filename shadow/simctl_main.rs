//! Thin driver binary. All logic lives in /verif/harness, mounted inside the
//! `mos` crate (so it has crate-private access).
//!
//! This binary also owns the entropy seam (and with it the process id and the time of day): std obtains its per-thread
//! `RandomState` keys from libc's `getrandom` through a weak symbol; defining
//! the symbol here interposes it for the whole process.

use std::os::raw::{c_long, c_uint, c_void};

extern "C" {
    fn syscall(num: c_long, ...) -> c_long;
}

const SYS_GETRANDOM: c_long = 318; // x86_64

/// # Safety
/// Called by libc users with a valid buffer of `len` bytes.
#[no_mangle]
pub unsafe extern "C" fn getrandom(buf: *mut c_void, len: usize, flags: c_uint) -> isize {
    if len > 0 && !buf.is_null() {
        let slice = std::slice::from_raw_parts_mut(buf as *mut u8, len);
        if mos_simrt::entropy::fill(slice) {
            return len as isize;
        }
    }
    syscall(SYS_GETRANDOM, buf, len, flags) as isize
}

const SYS_GETPID: c_long = 39; // x86_64
const SYS_CLOCK_GETTIME: c_long = 228; // x86_64
const CLOCK_REALTIME: i32 = 0;

#[repr(C)]
pub struct Timespec {
    tv_sec: i64,
    tv_nsec: i64,
}

/// The process id is one more thing that differs between two runs of a program: a simulated process
/// (a thread with an entropy seed) gets a process id of its own.
#[no_mangle]
pub extern "C" fn getpid() -> i32 {
    match mos_simrt::entropy::sim_pid() {
        Some(p) => p as i32,
        None => unsafe { syscall(SYS_GETPID) as i32 },
    }
}

/// ... and so are the time of day and - with an occasional jump, as if the process had been suspended -
/// the monotonic clock. Threads without an entropy seed (the harness itself) see the real clocks.
///
/// # Safety
/// Called by libc users with a valid timespec pointer.
#[no_mangle]
pub unsafe extern "C" fn clock_gettime(clock: i32, ts: *mut Timespec) -> i32 {
    if clock == CLOCK_REALTIME && !ts.is_null() {
        if let Some(secs) = mos_simrt::entropy::sim_realtime_secs() {
            (*ts).tv_sec = secs;
            (*ts).tv_nsec = 0;
            return 0;
        }
    }
    // CLOCK_MONOTONIC (1), _RAW (4), _COARSE (6), BOOTTIME (7): what std::time::Instant reads
    if matches!(clock, 1 | 4 | 6 | 7) && !ts.is_null() {
        if let Some(ns) = mos_simrt::entropy::sim_monotonic_nanos() {
            (*ts).tv_sec = (ns / 1_000_000_000) as i64;
            (*ts).tv_nsec = (ns % 1_000_000_000) as i64;
            return 0;
        }
    }
    syscall(SYS_CLOCK_GETTIME, clock as c_long, ts) as i32
}

/// ... and so is what a fresh allocation contains: see `mos_simrt::alloc_seam`.
#[global_allocator]
static ALLOCATOR: mos_simrt::alloc_seam::PoisonAlloc = mos_simrt::alloc_seam::PoisonAlloc;

fn main() {
    let args: Vec<String> = std::env::args().collect();
    std::process::exit(mos::verif_harness::main(&args));
}
