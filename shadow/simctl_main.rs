//! Thin driver binary. All logic lives in /verif/harness, mounted inside the
//! `mos` crate (so it has crate-private access).
//!
//! This binary also owns the entropy seam: std obtains its per-thread
//! `RandomState` keys from libc's `getrandom` through a weak symbol; defining
//! the symbol here interposes it for the whole process.

use std::os::raw::{c_long, c_uint, c_void};

extern "C" {
    fn syscall(num: c_long, ...) -> c_long;
}

const SYS_GETRANDOM: c_long = 318; // x86_64

/// # Safety
/// Called by libc users with a valid buffer of `len` bytes.
#[no_mangle]
pub unsafe extern "C" fn getrandom(buf: *mut c_void, len: usize, flags: c_uint) -> isize {
    if len > 0 && !buf.is_null() {
        let slice = std::slice::from_raw_parts_mut(buf as *mut u8, len);
        if mos_simrt::entropy::fill(slice) {
            return len as isize;
        }
    }
    syscall(SYS_GETRANDOM, buf, len, flags) as isize
}

fn main() {
    let args: Vec<String> = std::env::args().collect();
    std::process::exit(mos::verif_harness::main(&args));
}
