                    .import * from "../shared/c64.asm"

                    basic_start(start)

             start: lda #colors.gray
                    sta cursor_color
                    jsr kernal.clrscr
                    lda #0
                    sta vic.background
                    sta vic.foreground

                    // Set 38-column mode
                    lda vic.xscroll
                    and #%11110111
                    sta vic.xscroll

                    {
                        // Run all this code once per frame
                        lda vic.raster_pos
                        cmp #$80
                        bne -

                        // Do per-pixel soft-scroll
                        dec xscroll
                        bpl apply_xscroll

                        // the xscroll has wrapped around, so reset it
                        // and shift the screen by one char
                        lda #7
                        sta xscroll

                        ldx #0

                        {
                            lda $0401, x
                            sta $0400, x
                            inx
                            cpx #39
                            bne -
                        }

                        // Read a new character from our scroller.
                        // If it's $ff we should wrap around.
                        ldx text_pos
                        lda text, x
                        cmp #$ff
                        bne write_char

                        lda #$00
                        sta text_pos
                        jmp apply_xscroll

            write_char: sta $0427
                        inc text_pos

                        // Apply our soft-scroll value to VIC's xscroll register
         apply_xscroll: lda vic.xscroll
                        and #%11111000
                        ora xscroll
                        sta vic.xscroll

                        // Back to top
                        jmp -
                    }

           xscroll: .byte 0
          text_pos: .byte 0

              text: {
                        .text petscreen "mos says hello!      "
                        .byte $ff
                    }