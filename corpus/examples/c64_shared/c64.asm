                    /// Color of the cursor (taken into effect when clearing screen)
                    .const cursor_color = $0286

               vic: {
                        /// The low-byte of the raster position
                        .const raster_pos = $d012

                        /// Bits 7-6: Unused
                        ///
                        /// Bit 5: Reset-Bit
                        ///
                        /// Bit 4: Multi-Color Mode
                        ///
                        /// Bit 3: 38/40 column (1 = 40 cols)
                        ///
                        /// Bit 2-0: Smooth scroll
                        .const xscroll = $d016

                        /// Background color
                        .const background = $d020

                        /// Foreground color
                        .const foreground = $d021
                    }

            colors: {
                        .const black = 0
                        .const white = 1
                        .const red = 2
                        .const cyan = 3
                        .const purple = 4
                        .const green = 5
                        .const blue = 6
                        .const yellow = 7
                        .const orange = 8
                        .const brown = 9
                        .const light_red = 10
                        .const dark_gray = 11
                        .const gray = 12
                        .const light_green = 13
                        .const light_blue = 14
                        .const light_gray = 15
                    }

            kernal: {
                        /// Clears the screen in the current cursor color
                        .const clrscr = $e544
                    }

                    /// Constructs a `0 sys*` basic line
                    .macro basic_start(address) {
                        * = $0801

                        .byte $0c, $08, $00, $00, $9e

                        .if address >= 10000 {
                            .byte $30 + (address / 10000) % 10
                        }

                        .if address >= 1000 {
                            .byte $30 + (address / 1000) % 10
                        }

                        .if address >= 100 {
                            .byte $30 + (address / 100) % 10
                        }

                        .if address >= 10 {
                            .byte $30 + (address / 10) % 10
                        }

                        .byte $30 + address % 10
                        .byte 0, 0, 0
                    }