                    /// Thanks to F#READY for help in preparing this example
                    /// After loading, hit 'start', then wait two seconds and hit 'select'. Colors should appear.
                    .import * from "atari800.asm"

                    xex_load_header()

                    ///////////////////////////////////////////////////
                    // First XEX segment
                    ///////////////////////////////////////////////////
                    xex_segment_header("first", segments.first.start, segments.first.end)

                    .define bank {
                        name = "first"
                    }

                    .define segment {
                        name = "first"
                        bank = "first"
                        start = $0600
                    }

                    .segment "first" {
                 first: lda #0
                        sta 710

            wait_start: lda $d01f
                        cmp #6
                        bne wait_start
                        rts                           // continue loading
                    }

                    xex_segment_ini("first", first)

                    ///////////////////////////////////////////////////
                    // Second XEX segment
                    ///////////////////////////////////////////////////
                    xex_segment_header("second", segments.second.start, segments.second.end)

                    .define bank {
                        name = "second"
                    }

                    .define segment {
                        name = "second"
                        bank = "second"
                        start = segments.first.end
                    }

                    .segment "second" {
                second: lda #34
                        sta 710

                        lda #0
                        sta 20
             wait_2sec: lda 20
                        cmp #100
                        bne wait_2sec

           wait_select: lda $d01f
                        cmp #5
                        bne wait_select
                        rts                           // continue loading
                    }

                    xex_segment_ini("second", second)

                    ///////////////////////////////////////////////////
                    // Main XEX segment
                    ///////////////////////////////////////////////////
                    xex_segment_header("main", segments.main.start, segments.main.end)

                    .define bank {
                        name = "main"
                    }

                    .define segment {
                        name = "main"
                        bank = "main"
                        start = segments.second.end
                    }

                    .segment "main" {
                  main: lda $d40b
                        adc 20
                        asl
                        sta $d40a
                        sta $d018
                        jmp main
                    }

                    xex_segment_run("main", main)