                    .macro xex_load_header() {
                        .define bank {
                            name = "xex-load-header"
                            create-segment = true
                        }

                        .segment "xex-load-header" {
                            .byte $ff, $ff
                        }
                    }

                    .macro xex_segment_header(name, start, end) {
                        // the end of a segment is inclusive, so the last emitted byte is actually at end - 1
                        .const end_offset = end - 1

                        .define bank {
                            name = "${name}-header"
                            create-segment = true
                        }

                        .segment "${name}-header" {
                            .byte <start, >start, <end_offset, >end_offset
                        }
                    }

                    .macro xex_segment_ini(name, addr) {
                        .define bank {
                            name = "${name}-ini"
                            create-segment = true
                        }

                        .segment "${name}-ini" {
                            .byte $e2, $02, $e3, $02, <addr, >addr
                        }
                    }

                    .macro xex_segment_run(name, addr) {
                        .define bank {
                            name = "${name}-run"
                            create-segment = true
                        }

                        .segment "${name}-run" {
                            .byte $e0, $02, $e1, $02, <addr, >addr
                        }
                    }