                    .import * from "../shared/c64.asm"

                    .macro cart_header() {
                        .define bank {
                            name = "cart_header"
                            create-segment = true
                            size = 64
                        }

                        .segment "cart_header" {
                            // signature
                            .text "C64 CARTRIDGE   "
                            // header size
                            .byte 0, 0, 0, $40
                            // version
                            .word 1
                            // hardware type 'MAGIC DESK'
                            .byte 0, 19
                            // EXROM line status
                            .byte 1
                            // GAME line status
                            .byte 0
                            // reserved
                            .byte 0, 0, 0, 0, 0, 0
                            // cartridge name and padding
                            .text "EXAMPLE CARTRIDGE FOR MOS"
                            .byte 0, 0, 0, 0, 0, 0, 0
                        }
                    }

                    .macro bank_header(bank_idx) {
                        .define bank {
                            name = "bank_header_{bank_idx}"
                            size = 16
                            create-segment = true
                        }

                        .segment "bank_header_{bank_idx}" {
                            // signature
                            .text "CHIP"
                            // packet length
                            .byte 0, 0, $20, $10
                            // chip type (0 = ROM, 1 = RAM / no ROM data, 2 = Flash ROM)
                            .byte 0, 0
                            // bank number
                            .byte 0, bank_idx
                            // starting load address
                            .byte $80, $00
                            // ROM image size
                            .byte $20, $00
                        }

                        .define bank {
                            name = "bank_{bank_idx}"
                            size = 8192
                            fill = 0
                        }

                        .define segment {
                            name = "bank_{bank_idx}"
                            bank = "bank_{bank_idx}"
                            start = $8000
                        }
                    }

                    cart_header()
                    bank_header(0)

                    .segment "bank_0" {
                        .word coldstart
                        .word warmstart
                        .byte $C3, $C2, $CD, $38, $30

             coldstart: sei
                        stx $d016
                        jsr $fda3
                        jsr $fd50
                        jsr $fd15
                        jsr $ff5b
                        cli

             warmstart: inc $d020
                        jmp warmstart
                    }

                    .segment "bank_0" {
                        .test "header_is_in_the_right_place" {
                            .assert ram($8004) == $C3

                        }
                    }