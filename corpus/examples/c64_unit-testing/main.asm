                    // Based on a c64unit example
                    .test "stack_pointer" {
                        lda #6
                        pha
                        lda #4
                        pha

                        pla
                        pla

                        tsx

                        .assert cpu.sp == $fd

                        brk
                    }

                    .test "will_fail" {
                        .loop 2 {
                            .trace (index, *, ram($2000))
                        }
                        .trace
                        .assert * == $1234

                        // will never be reached
                        nop
                    }

                    .test "will_succeed" {
                        brk
                    }