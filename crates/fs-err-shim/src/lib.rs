//! Drop-in replacement for the subset of `fs-err` used by mos / mos-core.
//! Mounted by dependency renaming in the shadow manifests
//! (`fs-err = { package = "fs-err-shim", .. }`), so no source line of the
//! repository changes. With a simulated disk installed on the calling thread
//! every operation is served by `mos_simrt::disk`; otherwise it forwards to
//! the real `fs-err`.

use mos_simrt::disk;
use std::fmt;
use std::io::{self, Read, Seek, SeekFrom, Write};
use std::path::{Path, PathBuf};

#[derive(Debug, Clone, Copy)]
enum EK {
    OpenFile,
    CreateFile,
    CreateDir,
    Read,
    Rename,
    RemoveFile,
}

#[derive(Debug)]
struct ShimError {
    kind: EK,
    source: io::Error,
    path: PathBuf,
    to: Option<PathBuf>,
}

impl fmt::Display for ShimError {
    fn fmt(&self, f: &mut fmt::Formatter) -> fmt::Result {
        let p = self.path.display();
        match self.kind {
            EK::OpenFile => write!(f, "failed to open file `{}`", p),
            EK::CreateFile => write!(f, "failed to create file `{}`", p),
            EK::CreateDir => write!(f, "failed to create directory `{}`", p),
            EK::Read => write!(f, "failed to read from file `{}`", p),
            EK::Rename => write!(f, "failed to rename file from {} to {}", p, self.to.as_ref().map(|t| t.display().to_string()).unwrap_or_default()),
            EK::RemoveFile => write!(f, "failed to remove file `{}`", p),
        }
    }
}

impl std::error::Error for ShimError {
    fn source(&self) -> Option<&(dyn std::error::Error + 'static)> {
        Some(&self.source)
    }
}

fn wrap(source: io::Error, kind: EK, path: &Path) -> io::Error {
    io::Error::new(
        source.kind(),
        ShimError {
            kind,
            source,
            path: path.to_path_buf(),
            to: None,
        },
    )
}

enum Inner {
    Real(real_fs_err::File),
    SimRead(io::Cursor<Vec<u8>>),
    SimWrite { norm: PathBuf, pos: usize },
}

pub struct File {
    inner: Inner,
    path: PathBuf,
    /// what fstat reports: the size of the file on the disk at open time - which is not necessarily
    /// what the reads will deliver (a file that shrinks, a planned short read)
    stat_len: u64,
    /// reads that returned 0 bytes at the end of the file (logical clock for read loops)
    eof_reads: u32,
}

/// The part of `std::fs::Metadata` that can be answered for a simulated file.
#[derive(Clone, Debug)]
pub struct Metadata {
    len: u64,
    dir: bool,
}

impl Metadata {
    #[allow(clippy::len_without_is_empty)]
    pub fn len(&self) -> u64 {
        self.len
    }
    pub fn is_dir(&self) -> bool {
        self.dir
    }
    pub fn is_file(&self) -> bool {
        !self.dir
    }
}

/// A loop that keeps reading at the end of a file never ends: more than this many empty reads of one file is a verdict
const EOF_READ_BUDGET: u32 = 100_000;

impl fmt::Debug for File {
    fn fmt(&self, f: &mut fmt::Formatter) -> fmt::Result {
        write!(f, "File({})", self.path.display())
    }
}

impl File {
    pub fn open<P: AsRef<Path>>(path: P) -> io::Result<Self> {
        let path = path.as_ref();
        if disk::active() {
            let stat_len = disk::with(|d| d.files.get(&disk::normalize(path)).map(|b| b.len() as u64)).unwrap().unwrap_or(0);
            let data = disk::with(|d| d.read(path))
                .unwrap()
                .map_err(|e| wrap(e, EK::OpenFile, path))?;
            Ok(File {
                inner: Inner::SimRead(io::Cursor::new(data)),
                path: path.to_path_buf(),
                stat_len,
                eof_reads: 0,
            })
        } else {
            Ok(File {
                inner: Inner::Real(real_fs_err::File::open(path)?),
                path: path.to_path_buf(),
                stat_len: 0,
                eof_reads: 0,
            })
        }
    }

    pub fn create<P: AsRef<Path>>(path: P) -> io::Result<Self> {
        let path = path.as_ref();
        if disk::active() {
            let norm = disk::with(|d| d.open_write(path, true, true))
                .unwrap()
                .map_err(|e| wrap(e, EK::CreateFile, path))?;
            Ok(File {
                inner: Inner::SimWrite { norm, pos: 0 },
                path: path.to_path_buf(),
                stat_len: 0,
                eof_reads: 0,
            })
        } else {
            Ok(File {
                inner: Inner::Real(real_fs_err::File::create(path)?),
                path: path.to_path_buf(),
                stat_len: 0,
                eof_reads: 0,
            })
        }
    }

    pub fn path(&self) -> &Path {
        &self.path
    }

    pub fn metadata(&self) -> io::Result<Metadata> {
        match &self.inner {
            Inner::Real(f) => f.metadata().map(|m| Metadata { len: m.len(), dir: m.is_dir() }),
            Inner::SimRead(_) => Ok(Metadata { len: self.stat_len, dir: false }),
            Inner::SimWrite { norm, .. } => Ok(Metadata { len: disk::with(|d| d.files.get(norm).map(|b| b.len() as u64)).unwrap().unwrap_or(0), dir: false }),
        }
    }
}

impl Read for File {
    fn read(&mut self, buf: &mut [u8]) -> io::Result<usize> {
        match &mut self.inner {
            Inner::Real(f) => f.read(buf),
            Inner::SimRead(c) => {
                let n = c.read(buf)?;
                if n == 0 && !buf.is_empty() {
                    self.eof_reads += 1;
                    if self.eof_reads > EOF_READ_BUDGET {
                        panic!("{}: {} reads at the end of {} returned nothing and the caller keeps reading", disk::READ_BUDGET_MARKER, self.eof_reads, self.path.display());
                    }
                }
                Ok(n)
            }
            Inner::SimWrite { .. } => Err(io::Error::from_raw_os_error(9)),
        }
    }
}

impl Write for File {
    fn write(&mut self, buf: &[u8]) -> io::Result<usize> {
        match &mut self.inner {
            Inner::Real(f) => f.write(buf),
            Inner::SimRead(_) => Err(io::Error::from_raw_os_error(9)),
            Inner::SimWrite { norm, pos } => {
                let n = disk::with(|d| d.write_at(norm, *pos, buf))
                    .unwrap_or_else(|| Err(io::Error::from_raw_os_error(9)))?;
                *pos += n;
                Ok(n)
            }
        }
    }
    fn flush(&mut self) -> io::Result<()> {
        match &mut self.inner {
            Inner::Real(f) => f.flush(),
            _ => Ok(()),
        }
    }
}

impl Seek for File {
    fn seek(&mut self, s: SeekFrom) -> io::Result<u64> {
        match &mut self.inner {
            Inner::Real(f) => f.seek(s),
            Inner::SimRead(c) => c.seek(s),
            Inner::SimWrite { pos, .. } => match s {
                SeekFrom::Start(n) => {
                    *pos = n as usize;
                    Ok(n)
                }
                _ => Err(io::Error::from_raw_os_error(22)),
            },
        }
    }
}

#[derive(Clone, Debug, Default)]
pub struct OpenOptions {
    read: bool,
    write: bool,
    append: bool,
    truncate: bool,
    create: bool,
    create_new: bool,
}

impl OpenOptions {
    #[allow(clippy::new_without_default)]
    pub fn new() -> Self {
        OpenOptions::default()
    }
    pub fn read(&mut self, v: bool) -> &mut Self {
        self.read = v;
        self
    }
    pub fn write(&mut self, v: bool) -> &mut Self {
        self.write = v;
        self
    }
    pub fn append(&mut self, v: bool) -> &mut Self {
        self.append = v;
        self
    }
    pub fn truncate(&mut self, v: bool) -> &mut Self {
        self.truncate = v;
        self
    }
    pub fn create(&mut self, v: bool) -> &mut Self {
        self.create = v;
        self
    }
    pub fn create_new(&mut self, v: bool) -> &mut Self {
        self.create_new = v;
        self
    }
    pub fn open<P: AsRef<Path>>(&self, path: P) -> io::Result<File> {
        let path = path.as_ref();
        if disk::active() {
            if self.write || self.append {
                let norm = disk::with(|d| {
                    d.open_write(path, self.create || self.create_new, self.truncate)
                })
                .unwrap()
                .map_err(|e| wrap(e, EK::OpenFile, path))?;
                // O_APPEND: writing starts at the current end of the file
                let pos = if self.append {
                    disk::with(|d| d.len_of(&norm)).flatten().unwrap_or(0)
                } else {
                    0
                };
                Ok(File {
                    inner: Inner::SimWrite { norm, pos },
                    path: path.to_path_buf(),
                    stat_len: 0,
                    eof_reads: 0,
                })
            } else {
                File::open(path)
            }
        } else {
            let mut o = real_fs_err::OpenOptions::new();
            o.read(self.read)
                .write(self.write)
                .append(self.append)
                .truncate(self.truncate)
                .create(self.create)
                .create_new(self.create_new);
            Ok(File {
                inner: Inner::Real(o.open(path)?),
                path: path.to_path_buf(),
                stat_len: 0,
                eof_reads: 0,
            })
        }
    }
}

pub fn read<P: AsRef<Path>>(path: P) -> io::Result<Vec<u8>> {
    let path = path.as_ref();
    if disk::active() {
        disk::with(|d| d.read(path))
            .unwrap()
            .map_err(|e| wrap(e, EK::OpenFile, path))
    } else {
        real_fs_err::read(path)
    }
}

pub fn read_to_string<P: AsRef<Path>>(path: P) -> io::Result<String> {
    let path = path.as_ref();
    if disk::active() {
        let bytes = disk::with(|d| d.read(path))
            .unwrap()
            .map_err(|e| wrap(e, EK::OpenFile, path))?;
        String::from_utf8(bytes).map_err(|_| {
            wrap(
                io::Error::new(
                    io::ErrorKind::InvalidData,
                    "stream did not contain valid UTF-8",
                ),
                EK::Read,
                path,
            )
        })
    } else {
        real_fs_err::read_to_string(path)
    }
}

pub fn write<P: AsRef<Path>, C: AsRef<[u8]>>(path: P, contents: C) -> io::Result<()> {
    let path = path.as_ref();
    if disk::active() {
        let mut f = File::create(path)?;
        f.write_all(contents.as_ref())
    } else {
        real_fs_err::write(path, contents)
    }
}

pub fn create_dir_all<P: AsRef<Path>>(path: P) -> io::Result<()> {
    let path = path.as_ref();
    if disk::active() {
        disk::with(|d| d.create_dir_all(path))
            .unwrap()
            .map_err(|e| wrap(e, EK::CreateDir, path))
    } else {
        real_fs_err::create_dir_all(path)
    }
}

pub fn rename<P: AsRef<Path>, Q: AsRef<Path>>(from: P, to: Q) -> io::Result<()> {
    let (from, to) = (from.as_ref(), to.as_ref());
    if disk::active() {
        disk::with(|d| d.rename(from, to)).unwrap().map_err(|e| {
            io::Error::new(
                e.kind(),
                ShimError { kind: EK::Rename, source: e, path: from.to_path_buf(), to: Some(to.to_path_buf()) },
            )
        })
    } else {
        real_fs_err::rename(from, to)
    }
}

pub fn remove_file<P: AsRef<Path>>(path: P) -> io::Result<()> {
    let path = path.as_ref();
    if disk::active() {
        disk::with(|d| d.unlink(path)).unwrap().map_err(|e| wrap(e, EK::RemoveFile, path))
    } else {
        real_fs_err::remove_file(path)
    }
}

pub fn copy<P: AsRef<Path>, Q: AsRef<Path>>(from: P, to: Q) -> io::Result<u64> {
    let (from, to) = (from.as_ref(), to.as_ref());
    if disk::active() {
        let data = read(from)?;
        write(to, &data)?;
        Ok(data.len() as u64)
    } else {
        real_fs_err::copy(from, to)
    }
}

pub fn create_dir<P: AsRef<Path>>(path: P) -> io::Result<()> {
    create_dir_all(path)
}

pub fn canonicalize<P: AsRef<Path>>(path: P) -> io::Result<PathBuf> {
    let path = path.as_ref();
    if disk::active() {
        let p = disk::normalize(path);
        if disk::with(|d| d.exists(&p)).unwrap() {
            Ok(p)
        } else {
            Err(wrap(io::Error::from_raw_os_error(2), EK::OpenFile, path))
        }
    } else {
        real_fs_err::canonicalize(path)
    }
}

pub fn metadata<P: AsRef<Path>>(path: P) -> io::Result<Metadata> {
    let path = path.as_ref();
    if disk::active() {
        let p = disk::normalize(path);
        disk::with(|d| {
            if let Some(b) = d.files.get(&p) {
                Ok(Metadata { len: b.len() as u64, dir: false })
            } else if d.dirs.contains(&p) {
                Ok(Metadata { len: 4096, dir: true })
            } else {
                Err(wrap(io::Error::from_raw_os_error(2), EK::OpenFile, path))
            }
        })
        .unwrap()
    } else {
        real_fs_err::metadata(path).map(|m| Metadata { len: m.len(), dir: m.is_dir() })
    }
}

/// One entry of a simulated directory.
#[derive(Clone, Debug)]
pub struct DirEntry {
    path: PathBuf,
    dir: bool,
    len: u64,
}

impl DirEntry {
    pub fn path(&self) -> PathBuf {
        self.path.clone()
    }
    pub fn file_name(&self) -> std::ffi::OsString {
        self.path.file_name().map(|n| n.to_os_string()).unwrap_or_default()
    }
    pub fn metadata(&self) -> io::Result<Metadata> {
        Ok(Metadata { len: self.len, dir: self.dir })
    }
}

pub struct ReadDir {
    entries: std::vec::IntoIter<DirEntry>,
}

impl Iterator for ReadDir {
    type Item = io::Result<DirEntry>;
    fn next(&mut self) -> Option<Self::Item> {
        self.entries.next().map(Ok)
    }
}

/// The entries of a directory, in the order this copy of the project happens to list them: every simulated process
/// works on a copy of its own (another checkout, another file system), and the order in which a directory lists its
/// entries belongs to the copy, not to the project. It is derived from the process's entropy seed.
pub fn read_dir<P: AsRef<Path>>(path: P) -> io::Result<ReadDir> {
    let path = path.as_ref();
    if !disk::active() {
        // (outside a simulated process nothing of the code under test lists directories)
        return Err(wrap(io::Error::from_raw_os_error(2), EK::OpenFile, path));
    }
    let p = disk::normalize(path);
    let listed = disk::with(|d| {
        if !d.dirs.contains(&p) && !d.files.keys().any(|f| f.parent() == Some(p.as_path())) {
            return None;
        }
        let mut v: Vec<DirEntry> = vec![];
        for (f, b) in &d.files {
            if f.parent() == Some(p.as_path()) {
                v.push(DirEntry { path: f.clone(), dir: false, len: b.len() as u64 });
            }
        }
        for dir in &d.dirs {
            if dir.parent() == Some(p.as_path()) && *dir != p {
                v.push(DirEntry { path: dir.clone(), dir: true, len: 4096 });
            }
        }
        Some(v)
    })
    .unwrap();
    match listed {
        None => Err(wrap(io::Error::from_raw_os_error(2), EK::OpenFile, path)),
        Some(mut v) => {
            let salt = mos_simrt::entropy::listing_salt();
            v.sort_by_key(|e| {
                mos_simrt::rng::fnv64_extend(salt, e.path.to_string_lossy().as_bytes())
            });
            mos_simrt::entropy::note_listing();
            Ok(ReadDir { entries: v.into_iter() })
        }
    }
}
