//! See /verif/crates/mos-simrt/src/chan.rs.
pub use mos_simrt::chan::{
    bounded, unbounded, IntoIter, Iter, Receiver, RecvError, RecvTimeoutError, Select, SelectedOperation, SendError,
    Sender, TryIter, TryRecvError, TrySendError,
};
