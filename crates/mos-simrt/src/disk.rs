//! Simulated disk: an in-memory tree with a per-path fault plan.
//!
//! Installed per simulated process (thread-local). When no disk is installed
//! the fs-err shim forwards to the real file system.

use std::cell::RefCell;
use std::collections::{BTreeMap, BTreeSet};
use std::io;
use std::path::{Component, Path, PathBuf};

#[derive(Clone, Debug, PartialEq, Eq)]
pub enum FaultKind {
    /// ENOENT
    NotFound,
    /// EACCES
    PermissionDenied,
    /// EISDIR (the path is a directory)
    IsADirectory,
    /// EIO
    IoError,
    /// EINTR surfaced to the caller (std retries read_to_end on EINTR, so this
    /// models an open() that fails with it)
    Interrupted,
    /// file is shorter than it should be: only the first n bytes are served
    Truncate(usize),
    /// different contents on this access (editor saved in between)
    Replace(Vec<u8>),
    /// ENOSPC on create/write
    NoSpace,
}

impl FaultKind {
    pub fn name(&self) -> &'static str {
        match self {
            FaultKind::NotFound => "enoent",
            FaultKind::PermissionDenied => "eacces",
            FaultKind::IsADirectory => "eisdir",
            FaultKind::IoError => "eio",
            FaultKind::Interrupted => "eintr",
            FaultKind::Truncate(_) => "short_file",
            FaultKind::Replace(_) => "flap",
            FaultKind::NoSpace => "enospc",
        }
    }
}

#[derive(Clone, Copy, Debug, PartialEq, Eq)]
pub enum Op {
    Read,
    /// opening / creating a file for writing
    Write,
    /// a write(2) call on an already opened file
    WriteData,
}

#[derive(Clone, Debug, PartialEq, Eq)]
pub struct Fault {
    pub path: PathBuf,
    /// 1-based index of the access (per path and op kind) at which the fault
    /// fires; 0 = every access.
    pub nth: u32,
    pub op: Op,
    pub kind: FaultKind,
}

#[derive(Clone, Debug, Default)]
pub struct SimDisk {
    pub files: BTreeMap<PathBuf, Vec<u8>>,
    pub dirs: BTreeSet<PathBuf>,
    pub faults: Vec<Fault>,
    pub read_counts: BTreeMap<PathBuf, u32>,
    pub write_counts: BTreeMap<PathBuf, u32>,
    /// files created or modified by the system under test
    pub written: BTreeSet<PathBuf>,
    pub log: Vec<String>,
    pub fired: BTreeMap<&'static str, u32>,
    pub reads: u32,
    pub writes: u32,
    /// logical clock for code that loops over the file system: when more than this many reads
    /// happen since the last `reset_read_clock`, the read panics with `READ_BUDGET_MARKER`
    pub read_budget: Option<u32>,
    pub reads_since_reset: u32,
    pub data_write_counts: BTreeMap<PathBuf, u32>,
    /// paths on which a write(2) call was made to fail
    pub data_write_failures: BTreeSet<PathBuf>,
}

pub const READ_BUDGET_MARKER: &str = "VERIF-READ-BUDGET";

pub fn normalize(p: &Path) -> PathBuf {
    // relative paths resolve against the simulated process's working directory
    let joined;
    let p = if p.is_relative() {
        match crate::env::cwd() {
            Some(cwd) => {
                joined = cwd.join(p);
                joined.as_path()
            }
            None => p,
        }
    } else {
        p
    };
    let mut out = PathBuf::new();
    for c in p.components() {
        match c {
            Component::CurDir => {}
            Component::ParentDir => {
                if !out.pop() {
                    // stay at root / keep relative parent
                    if !out.has_root() {
                        out.push("..");
                    }
                }
            }
            other => out.push(other.as_os_str()),
        }
    }
    if out.as_os_str().is_empty() {
        out.push(".");
    }
    out
}

fn os_err(kind: &FaultKind) -> io::Error {
    match kind {
        FaultKind::NotFound => io::Error::from_raw_os_error(2),
        FaultKind::PermissionDenied => io::Error::from_raw_os_error(13),
        FaultKind::IsADirectory => io::Error::from_raw_os_error(21),
        FaultKind::IoError => io::Error::from_raw_os_error(5),
        FaultKind::Interrupted => io::Error::from_raw_os_error(4),
        FaultKind::NoSpace => io::Error::from_raw_os_error(28),
        FaultKind::Truncate(_) | FaultKind::Replace(_) => unreachable!(),
    }
}

impl SimDisk {
    pub fn new() -> Self {
        let mut d = SimDisk::default();
        d.dirs.insert(PathBuf::from("/"));
        d
    }

    /// current length of a regular file (no access counted, no fault applied)
    pub fn len_of(&self, path: &Path) -> Option<usize> {
        self.files.get(&normalize(path)).map(|b| b.len())
    }

    pub fn add_file<P: AsRef<Path>>(&mut self, path: P, data: impl Into<Vec<u8>>) {
        let p = normalize(path.as_ref());
        let mut cur = p.parent();
        while let Some(d) = cur {
            self.dirs.insert(d.to_path_buf());
            cur = d.parent();
        }
        self.files.insert(p, data.into());
    }

    pub fn add_dir<P: AsRef<Path>>(&mut self, path: P) {
        let p = normalize(path.as_ref());
        let mut cur = Some(p.as_path());
        while let Some(d) = cur {
            self.dirs.insert(d.to_path_buf());
            cur = d.parent();
        }
    }

    pub fn remove_file<P: AsRef<Path>>(&mut self, path: P) {
        self.files.remove(&normalize(path.as_ref()));
    }

    fn fault_for(&mut self, p: &Path, op: Op, count: u32) -> Option<FaultKind> {
        let f = self
            .faults
            .iter()
            .find(|f| f.op == op && f.path == p && (f.nth == 0 || f.nth == count))?;
        let kind = f.kind.clone();
        *self.fired.entry(kind.name()).or_insert(0) += 1;
        Some(kind)
    }

    pub fn reset_read_clock(&mut self) {
        self.reads_since_reset = 0;
    }

    pub fn read(&mut self, path: &Path) -> io::Result<Vec<u8>> {
        let p = normalize(path);
        self.reads += 1;
        self.reads_since_reset += 1;
        if let Some(b) = self.read_budget {
            if self.reads_since_reset > b {
                // keep the log bounded, then stop the caller
                self.log.truncate(64);
                panic!("{}: {} file reads by one operation (last: {})", READ_BUDGET_MARKER, self.reads_since_reset, p.display());
            }
        }
        let count = {
            let c = self.read_counts.entry(p.clone()).or_insert(0);
            *c += 1;
            *c
        };
        let res = match self.fault_for(&p, Op::Read, count) {
            Some(FaultKind::Truncate(n)) => match self.files.get(&p) {
                Some(b) => Ok(b[..n.min(b.len())].to_vec()),
                None => Err(io::Error::from_raw_os_error(2)),
            },
            Some(FaultKind::Replace(b)) => Ok(b),
            Some(k) => Err(os_err(&k)),
            None => {
                if let Some(b) = self.files.get(&p) {
                    Ok(b.clone())
                } else if self.dirs.contains(&p) {
                    Err(io::Error::from_raw_os_error(21))
                } else {
                    Err(io::Error::from_raw_os_error(2))
                }
            }
        };
        self.log.push(format!(
            "read#{} {} -> {}",
            count,
            p.display(),
            match &res {
                Ok(b) => format!("ok {}B", b.len()),
                Err(e) => format!("err {:?}", e.kind()),
            }
        ));
        res
    }

    /// open for writing; `truncate`/`create` as in OpenOptions.
    pub fn open_write(&mut self, path: &Path, create: bool, truncate: bool) -> io::Result<PathBuf> {
        let p = normalize(path);
        self.writes += 1;
        let count = {
            let c = self.write_counts.entry(p.clone()).or_insert(0);
            *c += 1;
            *c
        };
        let res = match self.fault_for(&p, Op::Write, count) {
            Some(FaultKind::Truncate(_)) | Some(FaultKind::Replace(_)) => Ok(()),
            Some(k) => Err(os_err(&k)),
            None => Ok(()),
        };
        let res = res.and_then(|_| {
            if self.dirs.contains(&p) {
                return Err(io::Error::from_raw_os_error(21));
            }
            let parent_ok = match p.parent() {
                Some(d) => d.as_os_str().is_empty() || self.dirs.contains(d),
                None => true,
            };
            if !parent_ok {
                return Err(io::Error::from_raw_os_error(2));
            }
            match self.files.get_mut(&p) {
                Some(b) => {
                    if truncate {
                        b.clear();
                    }
                }
                None => {
                    if !create {
                        return Err(io::Error::from_raw_os_error(2));
                    }
                    self.files.insert(p.clone(), vec![]);
                }
            }
            self.written.insert(p.clone());
            Ok(())
        });
        self.log.push(format!(
            "open_write#{} {} -> {}",
            count,
            p.display(),
            match &res {
                Ok(_) => "ok".to_string(),
                Err(e) => format!("err {:?}", e.kind()),
            }
        ));
        res.map(|_| p)
    }

    /// rename(2) of a regular file; faults planned for writes to the destination apply
    pub fn rename(&mut self, from: &Path, to: &Path) -> io::Result<()> {
        let (f, t) = (normalize(from), normalize(to));
        self.writes += 1;
        let count = {
            let c = self.write_counts.entry(t.clone()).or_insert(0);
            *c += 1;
            *c
        };
        let res = match self.fault_for(&t, Op::Write, count) {
            Some(FaultKind::Truncate(_)) | Some(FaultKind::Replace(_)) | None => Ok(()),
            Some(k) => Err(os_err(&k)),
        };
        let res = res.and_then(|_| {
            if !self.files.contains_key(&f) {
                return Err(io::Error::from_raw_os_error(2));
            }
            if self.dirs.contains(&t) {
                return Err(io::Error::from_raw_os_error(21));
            }
            let parent_ok = match t.parent() {
                Some(d) => d.as_os_str().is_empty() || self.dirs.contains(d),
                None => true,
            };
            if !parent_ok {
                return Err(io::Error::from_raw_os_error(2));
            }
            let data = self.files.remove(&f).unwrap();
            self.files.insert(t.clone(), data);
            self.written.insert(t.clone());
            Ok(())
        });
        self.log.push(format!("rename {} -> {} : {}", f.display(), t.display(), if res.is_ok() { "ok" } else { "err" }));
        res
    }

    /// unlink(2)
    pub fn unlink(&mut self, path: &Path) -> io::Result<()> {
        let p = normalize(path);
        if self.dirs.contains(&p) {
            return Err(io::Error::from_raw_os_error(21));
        }
        match self.files.remove(&p) {
            Some(_) => Ok(()),
            None => Err(io::Error::from_raw_os_error(2)),
        }
    }

    /// positional write used by the shim's File (offset is tracked there)
    pub fn write_at(&mut self, p: &Path, offset: usize, data: &[u8]) -> io::Result<usize> {
        let count = {
            let c = self.data_write_counts.entry(p.to_path_buf()).or_insert(0);
            *c += 1;
            *c
        };
        if let Some(k) = self.fault_for(p, Op::WriteData, count) {
            if !matches!(k, FaultKind::Truncate(_) | FaultKind::Replace(_)) {
                self.data_write_failures.insert(p.to_path_buf());
                self.log.push(format!("write#{} {} -> err {}", count, p.display(), k.name()));
                return Err(os_err(&k));
            }
        }
        match self.files.get_mut(p) {
            Some(b) => {
                if b.len() < offset {
                    b.resize(offset, 0);
                }
                let end = offset + data.len();
                if b.len() < end {
                    b.resize(end, 0);
                }
                b[offset..end].copy_from_slice(data);
                Ok(data.len())
            }
            None => Err(io::Error::from_raw_os_error(9)),
        }
    }

    pub fn create_dir_all(&mut self, path: &Path) -> io::Result<()> {
        let p = normalize(path);
        let mut chain = vec![];
        let mut cur = Some(p.as_path());
        while let Some(d) = cur {
            if self.files.contains_key(d) {
                return Err(io::Error::from_raw_os_error(20));
            }
            chain.push(d.to_path_buf());
            cur = d.parent();
        }
        for d in chain {
            if !d.as_os_str().is_empty() {
                self.dirs.insert(d);
            }
        }
        self.log.push(format!("mkdir -p {}", p.display()));
        Ok(())
    }

    pub fn exists(&self, path: &Path) -> bool {
        let p = normalize(path);
        self.files.contains_key(&p) || self.dirs.contains(&p)
    }
}

thread_local! {
    static DISK: RefCell<Option<SimDisk>> = const { RefCell::new(None) };
}

pub fn install(d: SimDisk) {
    DISK.with(|c| *c.borrow_mut() = Some(d));
}

pub fn uninstall() -> Option<SimDisk> {
    DISK.with(|c| c.borrow_mut().take())
}

pub fn active() -> bool {
    DISK.try_with(|c| c.borrow().is_some()).unwrap_or(false)
}

/// Run `f` on the installed disk. Returns None when no disk is installed.
pub fn with<R>(f: impl FnOnce(&mut SimDisk) -> R) -> Option<R> {
    DISK.with(|c| c.borrow_mut().as_mut().map(f))
}
