//! Simulation runtime for the datatrash/mos verification harness.
//!
//! Everything here is a *seam*: a place where the system under test would
//! otherwise meet the real world (entropy, disk, clock, threads, sockets).
//! All state is thread-local: one simulated process = one OS thread (for the
//! thread flavour: one shuttle execution, whose tasks are coroutines on that
//! same OS thread).

pub mod alloc_seam;
pub mod disk;
pub mod entropy;
pub mod env;
pub mod panics;
pub mod probe;
pub mod rng;

#[cfg(feature = "threads")]
pub mod clock;
#[cfg(feature = "threads")]
pub mod chan;
#[cfg(feature = "threads")]
pub mod net;
#[cfg(feature = "threads")]
pub mod pipe;
#[cfg(feature = "threads")]
pub mod std_shim;
#[cfg(feature = "threads")]
pub mod sched;

#[cfg(feature = "threads")]
pub use shuttle;
