//! Simulated TCP (loopback only) and byte pipes. Every read, write, accept and
//! close is a scheduling point; faults (short reads/writes, finite buffers so a
//! stalled peer blocks the writer, FIN, RST) are driven by per-run knobs.

use shuttle::sync::{Condvar, Mutex};
use std::cell::RefCell;
use std::collections::{BTreeMap, VecDeque};
use std::io::{self, Read, Write};
use std::net::{SocketAddr, ToSocketAddrs};
use std::sync::Arc;
use std::time::Duration;

#[derive(Clone, Debug)]
pub struct NetKnobs {
    /// maximum number of bytes moved by one read/write call (0 = unlimited)
    pub max_chunk: usize,
    /// capacity of each direction's buffer in bytes
    pub buffer_cap: usize,
}

impl Default for NetKnobs {
    fn default() -> Self {
        NetKnobs { max_chunk: 0, buffer_cap: 1 << 20 }
    }
}

#[derive(Clone, Debug, Default)]
pub struct NetStats {
    pub reads: u64,
    pub short_reads: u64,
    pub writes: u64,
    pub short_writes: u64,
    pub blocked_writes: u64,
    pub accepts: u64,
    pub binds: u64,
    pub bind_conflicts: u64,
    pub fin: u64,
    pub rst: u64,
    pub refused: u64,
}

#[derive(Default)]
struct NetState {
    listeners: BTreeMap<u16, Arc<ListenerInner>>,
    /// ports held by some OTHER process: bind fails with EADDRINUSE (nothing connects to them in the scenarios)
    foreign: std::collections::BTreeSet<u16>,
    knobs: NetKnobs,
    stats: NetStats,
}

thread_local! {
    static NET: RefCell<NetState> = RefCell::new(NetState::default());
}

pub fn reset(knobs: NetKnobs) {
    NET.with(|n| {
        *n.borrow_mut() = NetState { listeners: BTreeMap::new(), foreign: Default::default(), knobs, stats: NetStats::default() }
    });
}

pub fn stats() -> NetStats {
    NET.with(|n| n.borrow().stats.clone())
}

/// Fault: the port is already in use by another process when the process under test starts.
pub fn occupy_port(port: u16) {
    NET.with(|n| {
        n.borrow_mut().foreign.insert(port);
    });
}

pub fn bound_ports() -> Vec<u16> {
    NET.with(|n| n.borrow().listeners.keys().cloned().collect())
}

fn knobs() -> NetKnobs {
    NET.with(|n| n.borrow().knobs.clone())
}

fn stat(f: impl FnOnce(&mut NetStats)) {
    NET.with(|n| f(&mut n.borrow_mut().stats));
}

// -------------------------------------------------------------------------------------
// byte pipe
// -------------------------------------------------------------------------------------

#[derive(Default)]
struct PipeState {
    buf: VecDeque<u8>,
    write_closed: bool,
    read_closed: bool,
    reset: bool,
}

pub struct BytePipe {
    st: Mutex<PipeState>,
    cv: Condvar,
}

impl BytePipe {
    pub fn new() -> Arc<BytePipe> {
        Arc::new(BytePipe { st: Mutex::new(PipeState::default()), cv: Condvar::new() })
    }

    pub fn read(&self, out: &mut [u8]) -> io::Result<usize> {
        if out.is_empty() {
            return Ok(0);
        }
        let k = knobs();
        let mut st = self.st.lock().unwrap();
        loop {
            if st.reset {
                return Err(io::Error::from_raw_os_error(104));
            }
            if !st.buf.is_empty() {
                let mut n = out.len().min(st.buf.len());
                if k.max_chunk > 0 && n > k.max_chunk {
                    n = k.max_chunk;
                    stat(|s| s.short_reads += 1);
                }
                for b in out.iter_mut().take(n) {
                    *b = st.buf.pop_front().unwrap();
                }
                stat(|s| s.reads += 1);
                self.cv.notify_all();
                return Ok(n);
            }
            if st.write_closed {
                return Ok(0);
            }
            st = self.cv.wait(st).unwrap();
        }
    }

    pub fn write(&self, data: &[u8]) -> io::Result<usize> {
        if data.is_empty() {
            return Ok(0);
        }
        let k = knobs();
        let mut st = self.st.lock().unwrap();
        let mut blocked = false;
        loop {
            if st.reset {
                return Err(io::Error::from_raw_os_error(104));
            }
            if st.read_closed || st.write_closed {
                return Err(io::Error::from_raw_os_error(32));
            }
            if st.buf.len() < k.buffer_cap {
                let mut n = data.len().min(k.buffer_cap - st.buf.len());
                if k.max_chunk > 0 && n > k.max_chunk {
                    n = k.max_chunk;
                }
                if n < data.len() {
                    stat(|s| s.short_writes += 1);
                }
                st.buf.extend(&data[..n]);
                stat(|s| s.writes += 1);
                self.cv.notify_all();
                return Ok(n);
            }
            if !blocked {
                blocked = true;
                stat(|s| s.blocked_writes += 1);
            }
            st = self.cv.wait(st).unwrap();
        }
    }

    fn with_state(&self, f: impl FnOnce(&mut PipeState)) {
        if !crate::clock::active() {
            return;
        }
        if std::thread::panicking() {
            if let Ok(mut st) = self.st.try_lock() {
                f(&mut st);
            }
            return;
        }
        let mut st = self.st.lock().unwrap();
        f(&mut st);
        self.cv.notify_all();
    }

    pub fn close_write(&self) {
        self.with_state(|s| s.write_closed = true);
    }
    pub fn close_read(&self) {
        self.with_state(|s| s.read_closed = true);
    }
    pub fn reset(&self) {
        self.with_state(|s| {
            s.reset = true;
            s.buf.clear();
        });
    }
    pub fn pending(&self) -> usize {
        self.st.lock().unwrap().buf.len()
    }
}

// -------------------------------------------------------------------------------------
// TcpStream / TcpListener
// -------------------------------------------------------------------------------------

struct StreamInner {
    rx: Arc<BytePipe>,
    tx: Arc<BytePipe>,
    local: SocketAddr,
    peer: SocketAddr,
}

impl Drop for StreamInner {
    fn drop(&mut self) {
        // last handle closed: FIN in our sending direction, and nobody reads ours any more
        self.tx.close_write();
        self.rx.close_read();
    }
}

#[derive(Clone)]
pub struct TcpStream {
    inner: Arc<StreamInner>,
}

impl std::fmt::Debug for TcpStream {
    fn fmt(&self, f: &mut std::fmt::Formatter) -> std::fmt::Result {
        write!(f, "SimTcpStream({} -> {})", self.inner.local, self.inner.peer)
    }
}

fn pair(port: u16) -> (TcpStream, TcpStream) {
    let a = BytePipe::new();
    let b = BytePipe::new();
    let server_addr: SocketAddr = format!("127.0.0.1:{}", port).parse().unwrap();
    let client_addr: SocketAddr = "127.0.0.1:50000".parse().unwrap();
    let server = TcpStream { inner: Arc::new(StreamInner { rx: a.clone(), tx: b.clone(), local: server_addr, peer: client_addr }) };
    let client = TcpStream { inner: Arc::new(StreamInner { rx: b, tx: a, local: client_addr, peer: server_addr }) };
    (server, client)
}

impl TcpStream {
    pub fn connect<A: ToSocketAddrs>(addr: A) -> io::Result<TcpStream> {
        let port = addr.to_socket_addrs()?.next().map(|a| a.port()).unwrap_or(0);
        connect(port)
    }
    pub fn connect_timeout(addr: &SocketAddr, _timeout: Duration) -> io::Result<TcpStream> {
        connect(addr.port())
    }
    pub fn try_clone(&self) -> io::Result<TcpStream> {
        Ok(self.clone())
    }
    pub fn shutdown(&self, how: std::net::Shutdown) -> io::Result<()> {
        match how {
            std::net::Shutdown::Read => self.inner.rx.close_read(),
            std::net::Shutdown::Write => self.inner.tx.close_write(),
            std::net::Shutdown::Both => {
                self.inner.rx.close_read();
                self.inner.tx.close_write();
            }
        }
        stat(|s| s.fin += 1);
        Ok(())
    }
    /// abortive close (RST): both directions fail from now on
    pub fn reset(&self) {
        self.inner.rx.reset();
        self.inner.tx.reset();
        stat(|s| s.rst += 1);
    }
    pub fn set_nodelay(&self, _v: bool) -> io::Result<()> {
        Ok(())
    }
    pub fn set_nonblocking(&self, _v: bool) -> io::Result<()> {
        Ok(())
    }
    pub fn set_read_timeout(&self, _d: Option<Duration>) -> io::Result<()> {
        Ok(())
    }
    pub fn set_write_timeout(&self, _d: Option<Duration>) -> io::Result<()> {
        Ok(())
    }
    pub fn peer_addr(&self) -> io::Result<SocketAddr> {
        Ok(self.inner.peer)
    }
    pub fn local_addr(&self) -> io::Result<SocketAddr> {
        Ok(self.inner.local)
    }
    pub fn unread_bytes(&self) -> usize {
        self.inner.rx.pending()
    }
}

impl Read for TcpStream {
    fn read(&mut self, buf: &mut [u8]) -> io::Result<usize> {
        self.inner.rx.read(buf)
    }
}
impl Read for &TcpStream {
    fn read(&mut self, buf: &mut [u8]) -> io::Result<usize> {
        self.inner.rx.read(buf)
    }
}
impl Write for TcpStream {
    fn write(&mut self, buf: &[u8]) -> io::Result<usize> {
        self.inner.tx.write(buf)
    }
    fn flush(&mut self) -> io::Result<()> {
        Ok(())
    }
}
impl Write for &TcpStream {
    fn write(&mut self, buf: &[u8]) -> io::Result<usize> {
        self.inner.tx.write(buf)
    }
    fn flush(&mut self) -> io::Result<()> {
        Ok(())
    }
}

struct ListenerInner {
    backlog: Mutex<VecDeque<TcpStream>>,
    cv: Condvar,
    port: u16,
}

pub struct TcpListener {
    inner: Arc<ListenerInner>,
    nonblocking: std::cell::Cell<bool>,
}

impl std::fmt::Debug for TcpListener {
    fn fmt(&self, f: &mut std::fmt::Formatter) -> std::fmt::Result {
        write!(f, "SimTcpListener({})", self.inner.port)
    }
}

// the listener is moved between tasks of one execution (all on one OS thread)
unsafe impl Send for TcpListener {}
unsafe impl Sync for TcpListener {}

impl TcpListener {
    pub fn bind<A: ToSocketAddrs>(addr: A) -> io::Result<TcpListener> {
        let port = addr.to_socket_addrs()?.next().map(|a| a.port()).unwrap_or(0);
        // a scheduling point, like the system call it stands for
        shuttle::thread::sleep(Duration::ZERO);
        NET.with(|n| {
            let mut n = n.borrow_mut();
            let port = if port == 0 {
                (40000u16..).find(|p| !n.listeners.contains_key(p)).unwrap()
            } else {
                port
            };
            if n.listeners.contains_key(&port) || n.foreign.contains(&port) {
                n.stats.bind_conflicts += 1;
                return Err(io::Error::from_raw_os_error(98));
            }
            let inner = Arc::new(ListenerInner { backlog: Mutex::new(VecDeque::new()), cv: Condvar::new(), port });
            n.listeners.insert(port, inner.clone());
            n.stats.binds += 1;
            Ok(TcpListener { inner, nonblocking: std::cell::Cell::new(false) })
        })
    }

    pub fn accept(&self) -> io::Result<(TcpStream, SocketAddr)> {
        let mut b = self.inner.backlog.lock().unwrap();
        loop {
            if let Some(s) = b.pop_front() {
                stat(|s| s.accepts += 1);
                let peer = s.inner.peer;
                return Ok((s, peer));
            }
            if self.nonblocking.get() {
                return Err(io::Error::from_raw_os_error(11));
            }
            b = self.inner.cv.wait(b).unwrap();
        }
    }

    pub fn set_nonblocking(&self, v: bool) -> io::Result<()> {
        self.nonblocking.set(v);
        Ok(())
    }

    pub fn local_addr(&self) -> io::Result<SocketAddr> {
        Ok(format!("127.0.0.1:{}", self.inner.port).parse().unwrap())
    }

    pub fn incoming(&self) -> Incoming<'_> {
        Incoming { l: self }
    }
}

pub struct Incoming<'a> {
    l: &'a TcpListener,
}
impl<'a> Iterator for Incoming<'a> {
    type Item = io::Result<TcpStream>;
    fn next(&mut self) -> Option<io::Result<TcpStream>> {
        Some(self.l.accept().map(|p| p.0))
    }
}

impl Drop for TcpListener {
    fn drop(&mut self) {
        let port = self.inner.port;
        let _ = NET.try_with(|n| {
            if let Ok(mut n) = n.try_borrow_mut() {
                n.listeners.remove(&port);
            }
        });
        // connections that were never accepted are reset
        if !std::thread::panicking() && crate::clock::active() {
            let pending: Vec<TcpStream> = self.inner.backlog.lock().unwrap().drain(..).collect();
            for s in pending {
                s.reset();
            }
        }
    }
}

/// Client side (used by the harness and by code under test that connects).
pub fn connect(port: u16) -> io::Result<TcpStream> {
    let l = NET.with(|n| n.borrow().listeners.get(&port).cloned());
    match l {
        None => {
            stat(|s| s.refused += 1);
            // still a scheduling point
            shuttle::thread::sleep(Duration::ZERO);
            Err(io::Error::from_raw_os_error(111))
        }
        Some(l) => {
            let (server, client) = pair(port);
            let mut b = l.backlog.lock().unwrap();
            b.push_back(server);
            l.cv.notify_all();
            Ok(client)
        }
    }
}
