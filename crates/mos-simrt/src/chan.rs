//! API-compatible subset of crossbeam-channel 0.5 on shuttle primitives, so
//! that every channel operation is a scheduling point the simulator owns and
//! `recv_timeout` reads the simulated clock. Rendezvous semantics of
//! `bounded(0)` are preserved.

use crate::clock;
use shuttle::sync::{Condvar, Mutex};
use std::collections::VecDeque;
use std::fmt;
use std::sync::atomic::{AtomicBool, Ordering};
use std::sync::Arc;
use std::time::Duration;

struct State<T> {
    queue: VecDeque<T>,
    /// number of messages taken out so far (for rendezvous acknowledgement)
    taken: u64,
    /// number of messages put in so far
    put: u64,
    senders: usize,
    receivers: usize,
}

/// The lock and the condvar are not generic over `T` so that a timer callback
/// (which must be 'static) can take the lock before notifying: a notification
/// sent without the lock can be lost, because `Condvar::wait` has a scheduling
/// point before it releases the mutex and registers the waiter.
struct Chan<T> {
    cap: Option<usize>,
    lock: Arc<Mutex<()>>,
    cv: Arc<Condvar>,
    /// only accessed while `lock` is held
    state: std::cell::UnsafeCell<State<T>>,
}

unsafe impl<T: Send> Send for Chan<T> {}
unsafe impl<T: Send> Sync for Chan<T> {}

impl<T> Chan<T> {
    #[allow(clippy::mut_from_ref)]
    fn st<'a>(&'a self, _g: &shuttle::sync::MutexGuard<'a, ()>) -> &'a mut State<T> {
        unsafe { &mut *self.state.get() }
    }
}

/// Global activity signal for `Select` (one per OS thread = per execution).
struct Activity {
    m: Mutex<u64>,
    cv: Condvar,
}

thread_local! {
    static ACTIVITY: std::cell::RefCell<Option<Arc<Activity>>> = const { std::cell::RefCell::new(None) };
}

fn activity() -> Arc<Activity> {
    ACTIVITY.with(|a| {
        let mut a = a.borrow_mut();
        if a.is_none() {
            *a = Some(Arc::new(Activity { m: Mutex::new(0), cv: Condvar::new() }));
        }
        a.as_ref().unwrap().clone()
    })
}

/// Must be called at the start of every execution (shuttle objects do not
/// survive an execution).
pub fn reset() {
    ACTIVITY.with(|a| *a.borrow_mut() = None);
}

fn signal_activity() {
    let a = activity();
    let mut g = a.m.lock().unwrap();
    *g += 1;
    a.cv.notify_all();
}

pub struct Sender<T> {
    ch: Arc<Chan<T>>,
}

pub struct Receiver<T> {
    ch: Arc<Chan<T>>,
}

#[derive(PartialEq, Eq, Clone, Copy)]
pub struct SendError<T>(pub T);
#[derive(PartialEq, Eq, Clone, Copy, Debug)]
pub struct RecvError;
#[derive(PartialEq, Eq, Clone, Copy, Debug)]
pub enum TryRecvError {
    Empty,
    Disconnected,
}
#[derive(PartialEq, Eq, Clone, Copy, Debug)]
pub enum RecvTimeoutError {
    Timeout,
    Disconnected,
}
#[derive(PartialEq, Eq, Clone, Copy)]
pub enum TrySendError<T> {
    Full(T),
    Disconnected(T),
}

impl<T> fmt::Debug for SendError<T> {
    fn fmt(&self, f: &mut fmt::Formatter) -> fmt::Result {
        "SendError(..)".fmt(f)
    }
}
impl<T> fmt::Display for SendError<T> {
    fn fmt(&self, f: &mut fmt::Formatter) -> fmt::Result {
        "sending on a disconnected channel".fmt(f)
    }
}
impl<T: Send> std::error::Error for SendError<T> {}
impl<T> fmt::Debug for TrySendError<T> {
    fn fmt(&self, f: &mut fmt::Formatter) -> fmt::Result {
        match self {
            TrySendError::Full(_) => "Full(..)".fmt(f),
            TrySendError::Disconnected(_) => "Disconnected(..)".fmt(f),
        }
    }
}
impl fmt::Display for RecvError {
    fn fmt(&self, f: &mut fmt::Formatter) -> fmt::Result {
        "receiving on an empty and disconnected channel".fmt(f)
    }
}
impl std::error::Error for RecvError {}
impl fmt::Display for TryRecvError {
    fn fmt(&self, f: &mut fmt::Formatter) -> fmt::Result {
        match self {
            TryRecvError::Empty => "receiving on an empty channel".fmt(f),
            TryRecvError::Disconnected => "receiving on an empty and disconnected channel".fmt(f),
        }
    }
}
impl std::error::Error for TryRecvError {}
impl fmt::Display for RecvTimeoutError {
    fn fmt(&self, f: &mut fmt::Formatter) -> fmt::Result {
        match self {
            RecvTimeoutError::Timeout => "timed out waiting on receive operation".fmt(f),
            RecvTimeoutError::Disconnected => "channel is empty and disconnected".fmt(f),
        }
    }
}
impl std::error::Error for RecvTimeoutError {}

fn make<T>(cap: Option<usize>) -> (Sender<T>, Receiver<T>) {
    let ch = Arc::new(Chan {
        cap,
        lock: Arc::new(Mutex::new(())),
        cv: Arc::new(Condvar::new()),
        state: std::cell::UnsafeCell::new(State { queue: VecDeque::new(), taken: 0, put: 0, senders: 1, receivers: 1 }),
    });
    (Sender { ch: ch.clone() }, Receiver { ch })
}

pub fn bounded<T>(cap: usize) -> (Sender<T>, Receiver<T>) {
    make(Some(cap))
}

pub fn unbounded<T>() -> (Sender<T>, Receiver<T>) {
    make(None)
}

impl<T> Sender<T> {
    pub fn send(&self, msg: T) -> Result<(), SendError<T>> {
        let ch = &self.ch;
        let mut g = ch.lock.lock().unwrap();
        // wait for room (a zero-capacity channel has one hand-off slot)
        loop {
            let st = ch.st(&g);
            if st.receivers == 0 {
                return Err(SendError(msg));
            }
            let room = match ch.cap {
                None => true,
                Some(0) => st.queue.is_empty(),
                Some(n) => st.queue.len() < n,
            };
            if room {
                break;
            }
            g = ch.cv.wait(g).unwrap();
        }
        let my_seq = {
            let st = ch.st(&g);
            st.queue.push_back(msg);
            st.put += 1;
            st.put
        };
        ch.cv.notify_all();
        if ch.cap == Some(0) {
            // rendezvous: the send completes when a receiver has taken the message
            drop(g);
            signal_activity();
            let mut g = ch.lock.lock().unwrap();
            loop {
                let st = ch.st(&g);
                if st.taken >= my_seq {
                    return Ok(());
                }
                if st.receivers == 0 {
                    // nobody will ever take it: hand it back
                    if let Some(m) = st.queue.pop_back() {
                        st.put -= 1;
                        return Err(SendError(m));
                    }
                    return Ok(());
                }
                g = ch.cv.wait(g).unwrap();
            }
        }
        drop(g);
        signal_activity();
        Ok(())
    }

    pub fn try_send(&self, msg: T) -> Result<(), TrySendError<T>> {
        let ch = &self.ch;
        let g = ch.lock.lock().unwrap();
        let st = ch.st(&g);
        if st.receivers == 0 {
            return Err(TrySendError::Disconnected(msg));
        }
        let room = match ch.cap {
            None => true,
            Some(0) => false,
            Some(n) => st.queue.len() < n,
        };
        if !room {
            return Err(TrySendError::Full(msg));
        }
        st.queue.push_back(msg);
        st.put += 1;
        ch.cv.notify_all();
        drop(g);
        signal_activity();
        Ok(())
    }

    pub fn is_empty(&self) -> bool {
        let g = self.ch.lock.lock().unwrap();
        self.ch.st(&g).queue.is_empty()
    }

    pub fn len(&self) -> usize {
        let g = self.ch.lock.lock().unwrap();
        self.ch.st(&g).queue.len()
    }
}

impl<T> Clone for Sender<T> {
    fn clone(&self) -> Self {
        {
            let g = self.ch.lock.lock().unwrap();
            self.ch.st(&g).senders += 1;
        }
        Sender { ch: self.ch.clone() }
    }
}

impl<T> Drop for Sender<T> {
    fn drop(&mut self) {
        if !clock::active() {
            return;
        }
        if std::thread::panicking() {
            // never take a scheduling point while unwinding
            if let Ok(g) = self.ch.lock.try_lock() {
                let st = self.ch.st(&g);
                st.senders = st.senders.saturating_sub(1);
            }
            return;
        }
        let last = {
            let g = self.ch.lock.lock().unwrap();
            let st = self.ch.st(&g);
            st.senders -= 1;
            let last = st.senders == 0;
            if last {
                self.ch.cv.notify_all();
            }
            last
        };
        if last {
            signal_activity();
        }
    }
}

impl<T> fmt::Debug for Sender<T> {
    fn fmt(&self, f: &mut fmt::Formatter) -> fmt::Result {
        f.pad("Sender { .. }")
    }
}

impl<T> Receiver<T> {
    fn take(&self, st: &mut State<T>) -> Option<T> {
        let m = st.queue.pop_front();
        if m.is_some() {
            st.taken += 1;
            self.ch.cv.notify_all();
        }
        m
    }

    pub fn recv(&self) -> Result<T, RecvError> {
        let mut g = self.ch.lock.lock().unwrap();
        loop {
            let st = self.ch.st(&g);
            if let Some(m) = self.take(st) {
                return Ok(m);
            }
            if st.senders == 0 {
                return Err(RecvError);
            }
            g = self.ch.cv.wait(g).unwrap();
        }
    }

    pub fn try_recv(&self) -> Result<T, TryRecvError> {
        let g = self.ch.lock.lock().unwrap();
        let st = self.ch.st(&g);
        if let Some(m) = self.take(st) {
            return Ok(m);
        }
        if st.senders == 0 {
            Err(TryRecvError::Disconnected)
        } else {
            Err(TryRecvError::Empty)
        }
    }

    pub fn recv_timeout(&self, timeout: Duration) -> Result<T, RecvTimeoutError> {
        let expired = Arc::new(AtomicBool::new(false));
        let e2 = expired.clone();
        // the callback takes the channel's lock before notifying (see `Chan`)
        let lock = self.ch.lock.clone();
        let cv = self.ch.cv.clone();
        let timer = clock::register(
            timeout,
            Box::new(move || {
                let _g = lock.lock().unwrap();
                e2.store(true, Ordering::SeqCst);
                cv.notify_all();
            }),
        );
        let mut g = self.ch.lock.lock().unwrap();
        let r = loop {
            let st = self.ch.st(&g);
            if let Some(m) = self.take(st) {
                break Ok(m);
            }
            if st.senders == 0 {
                break Err(RecvTimeoutError::Disconnected);
            }
            if expired.load(Ordering::SeqCst) {
                break Err(RecvTimeoutError::Timeout);
            }
            g = self.ch.cv.wait(g).unwrap();
        };
        drop(g);
        clock::cancel(timer);
        r
    }

    pub fn iter(&self) -> Iter<'_, T> {
        Iter { r: self }
    }

    pub fn try_iter(&self) -> TryIter<'_, T> {
        TryIter { r: self }
    }

    pub fn is_empty(&self) -> bool {
        let g = self.ch.lock.lock().unwrap();
        self.ch.st(&g).queue.is_empty()
    }

    pub fn len(&self) -> usize {
        let g = self.ch.lock.lock().unwrap();
        self.ch.st(&g).queue.len()
    }

    /// readiness for `Select`: a message can be taken, or the channel is disconnected
    fn ready(&self) -> bool {
        let g = self.ch.lock.lock().unwrap();
        let st = self.ch.st(&g);
        !st.queue.is_empty() || st.senders == 0
    }
}

impl<T> Clone for Receiver<T> {
    fn clone(&self) -> Self {
        {
            let g = self.ch.lock.lock().unwrap();
            self.ch.st(&g).receivers += 1;
        }
        Receiver { ch: self.ch.clone() }
    }
}

impl<T> Drop for Receiver<T> {
    fn drop(&mut self) {
        if !clock::active() {
            return;
        }
        if std::thread::panicking() {
            if let Ok(g) = self.ch.lock.try_lock() {
                let st = self.ch.st(&g);
                st.receivers = st.receivers.saturating_sub(1);
            }
            return;
        }
        let g = self.ch.lock.lock().unwrap();
        let st = self.ch.st(&g);
        st.receivers -= 1;
        if st.receivers == 0 {
            self.ch.cv.notify_all();
        }
    }
}

impl<T> fmt::Debug for Receiver<T> {
    fn fmt(&self, f: &mut fmt::Formatter) -> fmt::Result {
        f.pad("Receiver { .. }")
    }
}

pub struct Iter<'a, T> {
    r: &'a Receiver<T>,
}
impl<'a, T> Iterator for Iter<'a, T> {
    type Item = T;
    fn next(&mut self) -> Option<T> {
        self.r.recv().ok()
    }
}
pub struct TryIter<'a, T> {
    r: &'a Receiver<T>,
}
impl<'a, T> Iterator for TryIter<'a, T> {
    type Item = T;
    fn next(&mut self) -> Option<T> {
        self.r.try_recv().ok()
    }
}
pub struct IntoIter<T> {
    r: Receiver<T>,
}
impl<T> Iterator for IntoIter<T> {
    type Item = T;
    fn next(&mut self) -> Option<T> {
        self.r.recv().ok()
    }
}
impl<'a, T> IntoIterator for &'a Receiver<T> {
    type Item = T;
    type IntoIter = Iter<'a, T>;
    fn into_iter(self) -> Iter<'a, T> {
        self.iter()
    }
}
impl<T> IntoIterator for Receiver<T> {
    type Item = T;
    type IntoIter = IntoIter<T>;
    fn into_iter(self) -> IntoIter<T> {
        IntoIter { r: self }
    }
}

/// Blocking selection over receive operations (the subset mos uses).
pub struct Select<'a> {
    // raw pointers like the real crate: `Select` must not have drop glue over
    // 'a, callers declare it before the receivers it borrows
    ops: Vec<(*const u8, unsafe fn(*const u8) -> bool)>,
    _p: std::marker::PhantomData<&'a ()>,
}

pub struct SelectedOperation<'a> {
    index: usize,
    _p: std::marker::PhantomData<&'a ()>,
}

unsafe fn ready_thunk<T>(p: *const u8) -> bool {
    (*(p as *const Receiver<T>)).ready()
}

impl<'a> Select<'a> {
    #[allow(clippy::new_without_default)]
    pub fn new() -> Select<'a> {
        Select { ops: vec![], _p: std::marker::PhantomData }
    }

    pub fn recv<T>(&mut self, r: &'a Receiver<T>) -> usize {
        self.ops.push((r as *const Receiver<T> as *const u8, ready_thunk::<T>));
        self.ops.len() - 1
    }

    pub fn select(&mut self) -> SelectedOperation<'a> {
        assert!(!self.ops.is_empty(), "no operations have been added to `Select`");
        let a = activity();
        let mut g = a.m.lock().unwrap();
        loop {
            let ready: Vec<usize> = (0..self.ops.len()).filter(|i| unsafe { (self.ops[*i].1)(self.ops[*i].0) }).collect();
            if !ready.is_empty() {
                // crossbeam picks randomly among ready operations; the choice
                // is drawn from the scheduler's stream, so it replays
                let pick = if ready.len() == 1 {
                    ready[0]
                } else {
                    use shuttle::rand::RngCore;
                    ready[(shuttle::rand::thread_rng().next_u64() % ready.len() as u64) as usize]
                };
                return SelectedOperation { index: pick, _p: std::marker::PhantomData };
            }
            g = a.cv.wait(g).unwrap();
        }
    }
}

impl<'a> SelectedOperation<'a> {
    pub fn index(&self) -> usize {
        self.index
    }

    pub fn recv<T>(self, r: &Receiver<T>) -> Result<T, RecvError> {
        // completing the operation disarms the drop check below
        std::mem::forget(self);
        match r.try_recv() {
            Ok(m) => Ok(m),
            Err(TryRecvError::Disconnected) => Err(RecvError),
            // lost the message to another consumer (not possible with a single consumer): block
            Err(TryRecvError::Empty) => r.recv(),
        }
    }
}

/// Like the real crate: a selected operation must be completed.
impl<'a> Drop for SelectedOperation<'a> {
    fn drop(&mut self) {
        if !std::thread::panicking() {
            panic!("dropped `SelectedOperation` without completing the operation");
        }
    }
}
