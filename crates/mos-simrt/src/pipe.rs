//! Simulated stdin/stdout of the simulated process (used by the patched
//! lsp-server stdio transport).

use crate::net::BytePipe;
use std::cell::RefCell;
use std::io::{self, BufRead, Read, Write};
use std::sync::Arc;

struct Pipes {
    stdin: Arc<BytePipe>,
    stdout: Arc<BytePipe>,
}

thread_local! {
    static PIPES: RefCell<Option<Pipes>> = const { RefCell::new(None) };
}

/// Create fresh pipes for a new simulated process. Returns the client ends:
/// (writer into the process's stdin, reader from the process's stdout).
pub fn create() -> (ClientWriter, ClientReader) {
    let p = Pipes { stdin: BytePipe::new(), stdout: BytePipe::new() };
    let w = ClientWriter { p: p.stdin.clone() };
    let r = ClientReader { p: p.stdout.clone(), buf: Vec::new(), pos: 0 };
    PIPES.with(|x| *x.borrow_mut() = Some(p));
    (w, r)
}

pub fn reset() {
    PIPES.with(|x| *x.borrow_mut() = None);
}

pub struct ClientWriter {
    p: Arc<BytePipe>,
}
impl ClientWriter {
    /// close the client's end of the pipe: the process reads EOF
    pub fn close(&self) {
        self.p.close_write();
    }
}
impl Write for ClientWriter {
    fn write(&mut self, buf: &[u8]) -> io::Result<usize> {
        self.p.write(buf)
    }
    fn flush(&mut self) -> io::Result<()> {
        Ok(())
    }
}

pub struct ClientReader {
    p: Arc<BytePipe>,
    buf: Vec<u8>,
    pos: usize,
}
impl ClientReader {
    /// the client stops reading and closes its end: the process gets EPIPE on write
    pub fn close(&self) {
        self.p.close_read();
    }
}
impl Read for ClientReader {
    fn read(&mut self, out: &mut [u8]) -> io::Result<usize> {
        let avail = self.fill_buf()?;
        let n = avail.len().min(out.len());
        out[..n].copy_from_slice(&avail[..n]);
        self.consume(n);
        Ok(n)
    }
}
impl BufRead for ClientReader {
    fn fill_buf(&mut self) -> io::Result<&[u8]> {
        if self.pos >= self.buf.len() {
            self.buf.resize(8192, 0);
            let n = self.p.read(&mut self.buf)?;
            self.buf.truncate(n);
            self.pos = 0;
        }
        Ok(&self.buf[self.pos..])
    }
    fn consume(&mut self, n: usize) {
        self.pos += n;
    }
}

pub struct Stdin {
    p: Arc<BytePipe>,
}
pub struct StdinLock {
    p: Arc<BytePipe>,
    buf: Vec<u8>,
    pos: usize,
}
pub struct Stdout {
    p: Arc<BytePipe>,
}
pub struct StdoutLock {
    p: Arc<BytePipe>,
}

fn closed_pipe() -> Arc<BytePipe> {
    let p = BytePipe::new();
    p.close_write();
    p
}

pub fn stdin() -> Stdin {
    let p = PIPES.with(|x| x.borrow().as_ref().map(|p| p.stdin.clone()));
    Stdin { p: p.unwrap_or_else(closed_pipe) }
}
pub fn stdout() -> Stdout {
    let p = PIPES.with(|x| x.borrow().as_ref().map(|p| p.stdout.clone()));
    Stdout { p: p.unwrap_or_else(BytePipe::new) }
}

impl Stdin {
    pub fn lock(&self) -> StdinLock {
        StdinLock { p: self.p.clone(), buf: Vec::new(), pos: 0 }
    }
}
impl Stdout {
    pub fn lock(&self) -> StdoutLock {
        StdoutLock { p: self.p.clone() }
    }
}
impl Read for StdinLock {
    fn read(&mut self, out: &mut [u8]) -> io::Result<usize> {
        let avail = self.fill_buf()?;
        let n = avail.len().min(out.len());
        out[..n].copy_from_slice(&avail[..n]);
        self.consume(n);
        Ok(n)
    }
}
impl BufRead for StdinLock {
    fn fill_buf(&mut self) -> io::Result<&[u8]> {
        if self.pos >= self.buf.len() {
            self.buf.resize(8192, 0);
            let n = self.p.read(&mut self.buf)?;
            self.buf.truncate(n);
            self.pos = 0;
        }
        Ok(&self.buf[self.pos..])
    }
    fn consume(&mut self, n: usize) {
        self.pos += n;
    }
}
impl Write for StdoutLock {
    fn write(&mut self, buf: &[u8]) -> io::Result<usize> {
        self.p.write(buf)
    }
    fn flush(&mut self) -> io::Result<()> {
        Ok(())
    }
}
