//! `std` with its scheduling- and I/O-related parts replaced. Mounted per
//! module by `#[cfg(mos_verif_threads)] use mos_simrt::std_shim as std;`, which
//! reroutes both `use std::sync::..` imports and inline `std::thread::spawn`.
//! Everything not overridden below is the real `std` (glob re-export; explicit
//! items shadow it).

pub use ::std::*;

pub mod sync {
    pub use ::std::sync::{mpsc, Arc, LockResult, Once, PoisonError, TryLockError, TryLockResult, Weak};
    pub use shuttle::sync::{Condvar, Mutex, MutexGuard, RwLock, RwLockReadGuard, RwLockWriteGuard};
    pub mod atomic {
        pub use ::std::sync::atomic::Ordering;
        pub use shuttle::sync::atomic::{AtomicBool, AtomicI32, AtomicI64, AtomicU32, AtomicU64, AtomicUsize};
        pub use shuttle::sync::atomic::{AtomicI8, AtomicU8};
    }
}

pub mod thread {
    pub use shuttle::thread::{current, park, spawn, yield_now, Builder, JoinHandle, Thread, ThreadId};
    pub use ::std::thread::{panicking, Result};

    /// simulated time
    pub fn sleep(d: ::std::time::Duration) {
        crate::clock::sleep(d)
    }
}

pub mod net {
    pub use crate::net::{TcpListener, TcpStream};
    pub use ::std::net::{IpAddr, Ipv4Addr, Ipv6Addr, Shutdown, SocketAddr, SocketAddrV4, SocketAddrV6, ToSocketAddrs};
}
