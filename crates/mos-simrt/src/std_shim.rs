//! `std` with its scheduling- and I/O-related parts replaced. Mounted per
//! module by `#[cfg(mos_verif_threads)] use mos_simrt::std_shim as std;`, which
//! reroutes both `use std::sync::..` imports and inline `std::thread::spawn`.
//! Everything not overridden below is the real `std` (glob re-export; explicit
//! items shadow it).

pub use ::std::*;

pub mod sync {
    pub use ::std::sync::{mpsc, Arc, LockResult, Once, PoisonError, TryLockError, TryLockResult, Weak};
    pub use shuttle::sync::{Condvar, Mutex, MutexGuard, RwLock, RwLockReadGuard, RwLockWriteGuard};
    pub mod atomic {
        pub use ::std::sync::atomic::Ordering;
        pub use shuttle::sync::atomic::{AtomicBool, AtomicI32, AtomicI64, AtomicU32, AtomicU64};
        pub use shuttle::sync::atomic::{AtomicI8, AtomicU8};

        /// `AtomicUsize` is only used for a process-global id counter (a `static`). A shuttle
        /// atomic in a static would be shared by the executions that run in parallel on
        /// different OS threads (and is not thread-safe); a std atomic would make ids depend on
        /// what other executions do. This one keeps one value per OS thread (= per execution),
        /// starting from the initial value: "epoch reset" of process-global state.
        pub struct AtomicUsize {
            init: usize,
        }

        ::std::thread_local! {
            static VALUES: ::std::cell::RefCell<::std::collections::BTreeMap<usize, usize>> =
                const { ::std::cell::RefCell::new(::std::collections::BTreeMap::new()) };
        }

        pub fn reset_process_globals() {
            VALUES.with(|v| v.borrow_mut().clear());
        }

        impl AtomicUsize {
            pub const fn new(v: usize) -> Self {
                AtomicUsize { init: v }
            }
            fn with<R>(&self, f: impl FnOnce(&mut usize) -> R) -> R {
                let key = self as *const _ as usize;
                VALUES.with(|v| f(v.borrow_mut().entry(key).or_insert(self.init)))
            }
            pub fn load(&self, _o: Ordering) -> usize {
                self.with(|v| *v)
            }
            pub fn store(&self, val: usize, _o: Ordering) {
                self.with(|v| *v = val)
            }
            pub fn fetch_add(&self, val: usize, _o: Ordering) -> usize {
                self.with(|v| {
                    let old = *v;
                    *v = old.wrapping_add(val);
                    old
                })
            }
            pub fn fetch_sub(&self, val: usize, _o: Ordering) -> usize {
                self.with(|v| {
                    let old = *v;
                    *v = old.wrapping_sub(val);
                    old
                })
            }
        }
    }
}

pub mod thread {
    pub use shuttle::thread::{current, park, scope, spawn, yield_now, Builder, JoinHandle, Scope, ScopedJoinHandle, Thread, ThreadId};
    pub use ::std::thread::{panicking, Result};

    /// simulated time
    pub fn sleep(d: ::std::time::Duration) {
        crate::clock::sleep(d)
    }
}

pub mod net {
    pub use crate::net::{TcpListener, TcpStream};
    pub use ::std::net::{IpAddr, Ipv4Addr, Ipv6Addr, Shutdown, SocketAddr, SocketAddrV4, SocketAddrV6, ToSocketAddrs};
}
