//! Simulated clock (threads flavour). Discrete-event time: a timer queue
//! ordered by (deadline, seq); a daemon task named `sim-clock` fires the
//! earliest timer each time the scheduler lets it run. *When* it may run is
//! decided by `sched::TimedScheduler` (quiescence, or an early-firing coin
//! bounded by a fairness assumption).
//!
//! The clock state itself lives in a thread-local (one shuttle execution runs
//! on one OS thread, one task at a time; the state is never borrowed across a
//! scheduling point). Blocking is done with shuttle primitives.

use shuttle::sync::{Condvar, Mutex};
use std::cell::RefCell;
use std::collections::BTreeMap;
use std::sync::Arc;
use std::time::Duration;

pub const CLOCK_TASK_NAME: &str = "sim-clock";

type Callback = Box<dyn FnOnce() + 'static>;

#[derive(Default)]
pub struct ClockState {
    pub now_us: u64,
    seq: u64,
    /// (deadline_us, seq) -> callback
    timers: BTreeMap<(u64, u64), Callback>,
    pub fired: u64,
    pub registered: u64,
    pub cancelled: u64,
    pub jumps_at_quiescence: u64,
    pub early_firings: u64,
    /// simulated time that passed while no task at all was runnable (every thread was waiting: for time, or for
    /// something that never comes); unlike `now_us` it cannot run ahead of a thread that still has work to do
    pub quiescent_us: u64,
    chosen_at_quiescence: bool,
    daemon_gate: Option<Arc<(Mutex<u64>, Condvar)>>,
    pub stopped: bool,
}

thread_local! {
    static CLOCK: RefCell<ClockState> = RefCell::new(ClockState::default());
}

thread_local! {
    static ACTIVE: std::cell::Cell<bool> = const { std::cell::Cell::new(false) };
}

/// Is a simulated execution in progress on this thread? Destructors of
/// simulator objects consult this: shuttle primitives must not be touched
/// once the execution is over.
pub fn active() -> bool {
    ACTIVE.try_with(|a| a.get()).unwrap_or(false)
}

pub fn set_active(v: bool) {
    let _ = ACTIVE.try_with(|a| a.set(v));
}

#[derive(Clone, Copy, Debug, PartialEq, Eq)]
pub struct TimerId(u64, u64);

pub fn reset() {
    CLOCK.with(|c| *c.borrow_mut() = ClockState::default());
}

pub fn now_us() -> u64 {
    CLOCK.with(|c| c.borrow().now_us)
}

pub fn now_ms() -> u64 {
    now_us() / 1000
}

pub fn next_deadline_us() -> Option<u64> {
    CLOCK.with(|c| c.borrow().timers.keys().next().map(|k| k.0))
}

pub fn stats() -> (u64, u64, u64, u64, u64, u64) {
    CLOCK.with(|c| {
        let c = c.borrow();
        (c.now_us, c.fired, c.registered, c.cancelled, c.jumps_at_quiescence, c.early_firings)
    })
}

/// The scheduler reports, at every decision, whether it chose the clock daemon because nothing else was runnable.
pub fn set_chosen_at_quiescence(v: bool) {
    CLOCK.with(|c| c.borrow_mut().chosen_at_quiescence = v);
}

pub fn quiescent_us() -> u64 {
    CLOCK.with(|c| c.borrow().quiescent_us)
}

pub fn note_quiescence_jump() {
    CLOCK.with(|c| c.borrow_mut().jumps_at_quiescence += 1);
}

pub fn note_early_firing() {
    CLOCK.with(|c| c.borrow_mut().early_firings += 1);
}

/// Register a timer; the callback runs in the context of the clock daemon.
pub fn register(after: Duration, cb: Callback) -> TimerId {
    let (id, gate) = CLOCK.with(|c| {
        let mut c = c.borrow_mut();
        c.seq += 1;
        c.registered += 1;
        let key = (c.now_us + after.as_micros() as u64, c.seq);
        c.timers.insert(key, cb);
        (TimerId(key.0, key.1), c.daemon_gate.clone())
    });
    if let Some(g) = gate {
        let mut n = g.0.lock().unwrap();
        *n += 1;
        g.1.notify_all();
    }
    id
}

pub fn cancel(id: TimerId) {
    CLOCK.with(|c| {
        let mut c = c.borrow_mut();
        if c.timers.remove(&(id.0, id.1)).is_some() {
            c.cancelled += 1;
        }
    });
}

/// Block the calling task for `d` of simulated time.
pub fn sleep(d: Duration) {
    if d.is_zero() {
        // plain scheduling point (not a yield hint)
        shuttle::thread::sleep(d);
        return;
    }
    let w = Arc::new((Mutex::new(false), Condvar::new()));
    let w2 = w.clone();
    register(
        d,
        Box::new(move || {
            *w2.0.lock().unwrap() = true;
            w2.1.notify_all();
        }),
    );
    let mut g = w.0.lock().unwrap();
    while !*g {
        g = w.1.wait(g).unwrap();
    }
}

/// Stop the daemon (it returns at its next wake-up).
pub fn stop_daemon() {
    let gate = CLOCK.with(|c| {
        let mut c = c.borrow_mut();
        c.stopped = true;
        c.daemon_gate.clone()
    });
    if let Some(g) = gate {
        let mut n = g.0.lock().unwrap();
        *n += 1;
        g.1.notify_all();
    }
}

/// Body of the `sim-clock` daemon task.
pub fn daemon_main() {
    let gate = Arc::new((Mutex::new(0u64), Condvar::new()));
    CLOCK.with(|c| c.borrow_mut().daemon_gate = Some(gate.clone()));
    loop {
        // every loop iteration begins with a scheduling point, so that the
        // scheduler decides about each individual firing
        shuttle::thread::sleep(Duration::ZERO);
        let (stopped, cb) = CLOCK.with(|c| {
            let mut c = c.borrow_mut();
            if c.stopped {
                return (true, None);
            }
            let key = c.timers.keys().next().cloned();
            match key {
                Some(k) => {
                    let cb = c.timers.remove(&k);
                    if k.0 > c.now_us {
                        if c.chosen_at_quiescence {
                            c.quiescent_us += k.0 - c.now_us;
                        }
                        c.now_us = k.0;
                    }
                    c.fired += 1;
                    (false, cb)
                }
                None => (false, None),
            }
        });
        if stopped {
            return;
        }
        match cb {
            Some(cb) => cb(),
            None => {
                // nothing to fire: wait until a timer is registered
                let mut n = gate.0.lock().unwrap();
                let seen = *n;
                loop {
                    let has = CLOCK.with(|c| {
                        let c = c.borrow();
                        c.stopped || !c.timers.is_empty()
                    });
                    if has || *n != seen {
                        break;
                    }
                    n = gate.1.wait(n).unwrap();
                }
            }
        }
    }
}

pub fn spawn_daemon() {
    let _ = shuttle::thread::Builder::new()
        .name(CLOCK_TASK_NAME.to_string())
        .spawn(daemon_main)
        .expect("spawn sim-clock");
    // JoinHandle dropped: the daemon is detached, like a thread the process
    // would kill by exiting
}
