//! The scheduler that decides every interleaving of a thread-flavour run, and
//! when simulated time may pass.
//!
//! Time model: the `sim-clock` daemon (see `clock`) is only offered to the
//! random choice when
//!  1. no other task is runnable (*quiescence*: discrete-event jump), or
//!  2. a per-run coin allows an *early* firing AND firing the earliest timer
//!     would not move `now` more than `stall_bound` past the moment any
//!     runnable non-daemon task last ran (fairness assumption: no runnable
//!     thread is stalled for more than `stall_bound` of real time).
//! One seed decides everything: the scheduler owns a splitmix64 stream; the
//! same stream serves `shuttle::rand` requests of the tasks.

use crate::clock;
use crate::rng::Rng;
use shuttle::scheduler::{Schedule, Scheduler, Task, TaskId};
use std::cell::RefCell;
use std::collections::BTreeMap;

#[derive(Clone, Debug)]
pub struct SchedKnobs {
    /// probability (percent) of staying on the current task when it is runnable
    pub stay_bias: u32,
    /// early timer firing allowed with probability 1/early_coin at each decision
    pub early_coin: u32,
    /// fairness bound in microseconds
    pub stall_bound_us: u64,
    /// A recorded schedule to follow instead of drawing task choices: the task id chosen at each
    /// decision. Followed *tolerantly*: a recorded choice that is not runnable at that decision
    /// (or that would break the fairness rule of the clock), and every decision after the end of
    /// the recording, falls back on the default policy "stay on the current task, else the lowest
    /// runnable task id, the clock daemon only at quiescence". A replay is therefore a pure
    /// function of (schedule, workload, code) whether or not the schedule was edited by the
    /// minimiser.
    pub schedule: Option<std::sync::Arc<Vec<u32>>>,
}

impl Default for SchedKnobs {
    fn default() -> Self {
        SchedKnobs {
            stay_bias: 0,
            early_coin: 4,
            stall_bound_us: 1_000_000,
            schedule: None,
        }
    }
}

#[derive(Clone, Debug, Default)]
pub struct SchedStats {
    pub decisions: u64,
    pub context_switches: u64,
    pub max_runnable: usize,
    pub tasks_seen: usize,
    /// hash of the sequence of (chosen task id) at context switches
    pub switch_hash: u64,
    pub random_words: u64,
    /// recorded decisions that could not be followed in a replay (0 in a search run)
    pub replay_fallbacks: u64,
    /// decisions taken after the end of the recorded schedule
    pub replay_beyond_end: u64,
}

thread_local! {
    static STATS: RefCell<SchedStats> = RefCell::new(SchedStats::default());
    static RECORD: RefCell<(bool, Vec<u32>)> = const { RefCell::new((false, Vec::new())) };
}

/// Ask the next execution on this OS thread to record the task chosen at every decision.
pub fn set_recording(on: bool) {
    RECORD.with(|r| {
        let mut r = r.borrow_mut();
        r.0 = on;
        r.1.clear();
    });
}

pub fn take_recording() -> Vec<u32> {
    RECORD.with(|r| std::mem::take(&mut r.borrow_mut().1))
}

/// run-length encoding used in replay files: [[task, count], ...]
pub fn rle(choices: &[u32]) -> Vec<(u32, u32)> {
    let mut out: Vec<(u32, u32)> = Vec::new();
    for c in choices {
        match out.last_mut() {
            Some((t, n)) if t == c => *n += 1,
            _ => out.push((*c, 1)),
        }
    }
    out
}

pub fn un_rle(segs: &[(u32, u32)]) -> Vec<u32> {
    let mut out = Vec::new();
    for (t, n) in segs {
        for _ in 0..*n {
            out.push(*t);
        }
    }
    out
}

/// scheduling decisions taken so far in the execution running on this OS thread
pub fn decisions_so_far() -> u64 {
    STATS.with(|s| s.borrow().decisions)
}

pub fn take_stats() -> SchedStats {
    STATS.with(|s| std::mem::take(&mut *s.borrow_mut()))
}

pub struct SimScheduler {
    rng: Rng,
    data_rng: Rng,
    knobs: SchedKnobs,
    started: bool,
    last_ran_us: BTreeMap<usize, u64>,
    last_task: Option<usize>,
    pos: usize,
    run_len: u32,
}

/// longest run of consecutive decisions the default policy of a replay gives one task
const DEFAULT_SLICE: u32 = 64;

impl SimScheduler {
    pub fn new(seed: u64, knobs: SchedKnobs) -> Self {
        STATS.with(|s| *s.borrow_mut() = SchedStats::default());
        SimScheduler {
            rng: Rng::new(crate::rng::derive(seed, "sched.task", 0)),
            data_rng: Rng::new(crate::rng::derive(seed, "sched.data", 0)),
            knobs,
            started: false,
            last_ran_us: BTreeMap::new(),
            last_task: None,
            pos: 0,
            run_len: 0,
        }
    }

    fn clock_allowed(&self, others: &[TaskId], now: u64) -> bool {
        match clock::next_deadline_us() {
            Some(deadline) => others.iter().all(|t| {
                let last = self.last_ran_us.get(&usize::from(*t)).copied().unwrap_or(now);
                deadline <= last.saturating_add(self.knobs.stall_bound_us)
            }),
            // no timer pending: running the daemon is harmless (it will block)
            None => true,
        }
    }
}

impl Scheduler for SimScheduler {
    fn new_execution(&mut self) -> Option<Schedule> {
        // exactly one execution per scheduler (and per OS thread), see DESIGN 2.4-3
        if self.started {
            return None;
        }
        self.started = true;
        Some(Schedule::new(0))
    }

    fn next_task(&mut self, runnable: &[&Task], current: Option<TaskId>, is_yielding: bool) -> Option<TaskId> {
        let now = clock::now_us();
        let is_clock = |t: &&Task| t.name().as_deref() == Some(clock::CLOCK_TASK_NAME);
        let clock_task = runnable.iter().find(|t| is_clock(t)).map(|t| t.id());
        let others: Vec<TaskId> = runnable.iter().filter(|t| !is_clock(t)).map(|t| t.id()).collect();

        let mut quiescent_jump = false;
        let cur = current.map(usize::from);
        let chosen = if let Some(schedule) = self.knobs.schedule.clone() {
            // replay: follow the recording where it can be followed
            if clock_task.is_some() && others.is_empty() {
                quiescent_jump = true;
            }
            // default policy (fair, deterministic): stay on the current task; when it yields, is no
            // longer runnable or has had DEFAULT_SLICE decisions in a row, go on to the next runnable
            // task id in cyclic order - the clock daemon takes its turn in that order when the
            // fairness rule allows it, and runs at once at quiescence
            let clock_ok = clock_task.is_some() && (quiescent_jump || self.clock_allowed(&others, now));
            let run_len = self.run_len;
            let default_choice = || -> TaskId {
                if !is_yielding && run_len < DEFAULT_SLICE {
                    if let Some(t) = cur.and_then(|c| others.iter().find(|t| usize::from(**t) == c)) {
                        return *t;
                    }
                }
                let mut ring: Vec<TaskId> = others.clone();
                if clock_ok {
                    ring.push(clock_task.unwrap());
                }
                ring.sort_by_key(|t| usize::from(*t));
                let after = cur.unwrap_or(usize::MAX);
                ring.iter()
                    .find(|t| usize::from(**t) > after)
                    .or(ring.first())
                    .copied()
                    .unwrap_or_else(|| runnable[0].id())
            };
            let want = schedule.get(self.pos).copied();
            self.pos += 1;
            match want {
                None => {
                    STATS.with(|s| s.borrow_mut().replay_beyond_end += 1);
                    default_choice()
                }
                Some(w) => {
                    let hit = runnable.iter().map(|t| t.id()).find(|t| usize::from(*t) == w as usize);
                    let ok = match hit {
                        Some(t) if Some(t) == clock_task => quiescent_jump || self.clock_allowed(&others, now),
                        Some(_) => true,
                        None => false,
                    };
                    if ok {
                        hit.unwrap()
                    } else {
                        STATS.with(|s| s.borrow_mut().replay_fallbacks += 1);
                        default_choice()
                    }
                }
            }
        } else {
            let mut candidates: Vec<TaskId> = others.clone();
            if let Some(ct) = clock_task {
                if others.is_empty() {
                    candidates.push(ct);
                    quiescent_jump = true;
                } else if self.knobs.early_coin > 0 && self.rng.below(self.knobs.early_coin as usize) == 0 {
                    // early firing, bounded by the fairness assumption
                    if self.clock_allowed(&others, now) {
                        candidates.push(ct);
                    }
                }
            }
            if candidates.is_empty() {
                // cannot happen: runnable is non-empty
                candidates.push(runnable[0].id());
            }
            let stay = cur
                .and_then(|c| candidates.iter().find(|t| usize::from(**t) == c).cloned())
                .filter(|_| self.knobs.stay_bias > 0 && (self.rng.below(100) as u32) < self.knobs.stay_bias);
            match stay {
                Some(t) => t,
                None => candidates[self.rng.below(candidates.len())],
            }
        };
        let cid = usize::from(chosen);
        RECORD.with(|r| {
            let mut r = r.borrow_mut();
            if r.0 {
                r.1.push(cid as u32);
            }
        });
        clock::set_chosen_at_quiescence(Some(chosen) == clock_task && quiescent_jump);
        if Some(chosen) == clock_task {
            if quiescent_jump {
                clock::note_quiescence_jump();
            } else {
                clock::note_early_firing();
            }
        } else {
            self.last_ran_us.insert(cid, now);
        }
        // tasks that are not runnable are not "stalled": forget them
        let runnable_ids: Vec<usize> = runnable.iter().map(|t| usize::from(t.id())).collect();
        self.last_ran_us.retain(|k, _| runnable_ids.contains(k));
        for id in &runnable_ids {
            self.last_ran_us.entry(*id).or_insert(now);
        }
        STATS.with(|s| {
            let mut s = s.borrow_mut();
            s.decisions += 1;
            s.max_runnable = s.max_runnable.max(runnable.len());
            s.tasks_seen = s.tasks_seen.max(cid + 1);
            if self.last_task != Some(cid) {
                s.context_switches += 1;
                s.switch_hash = crate::rng::fnv64_extend(
                    if s.switch_hash == 0 { 0xcbf2_9ce4_8422_2325 } else { s.switch_hash },
                    &(cid as u32).to_le_bytes(),
                );
            }
        });
        self.run_len = if self.last_task == Some(cid) { self.run_len + 1 } else { 0 };
        self.last_task = Some(cid);
        Some(chosen)
    }

    fn next_u64(&mut self) -> u64 {
        STATS.with(|s| s.borrow_mut().random_words += 1);
        self.data_rng.next_u64()
    }
}
