//! The scheduler that decides every interleaving of a thread-flavour run, and
//! when simulated time may pass.
//!
//! Time model: the `sim-clock` daemon (see `clock`) is only offered to the
//! random choice when
//!  1. no other task is runnable (*quiescence*: discrete-event jump), or
//!  2. a per-run coin allows an *early* firing AND firing the earliest timer
//!     would not move `now` more than `stall_bound` past the moment any
//!     runnable non-daemon task last ran (fairness assumption: no runnable
//!     thread is stalled for more than `stall_bound` of real time).
//! One seed decides everything: the scheduler owns a splitmix64 stream; the
//! same stream serves `shuttle::rand` requests of the tasks.

use crate::clock;
use crate::rng::Rng;
use shuttle::scheduler::{Schedule, Scheduler, Task, TaskId};
use std::cell::RefCell;
use std::collections::BTreeMap;

#[derive(Clone, Debug)]
pub struct SchedKnobs {
    /// probability (percent) of staying on the current task when it is runnable
    pub stay_bias: u32,
    /// early timer firing allowed with probability 1/early_coin at each decision
    pub early_coin: u32,
    /// fairness bound in microseconds
    pub stall_bound_us: u64,
}

impl Default for SchedKnobs {
    fn default() -> Self {
        SchedKnobs {
            stay_bias: 0,
            early_coin: 4,
            stall_bound_us: 1_000_000,
        }
    }
}

#[derive(Clone, Debug, Default)]
pub struct SchedStats {
    pub decisions: u64,
    pub context_switches: u64,
    pub max_runnable: usize,
    pub tasks_seen: usize,
    /// hash of the sequence of (chosen task id) at context switches
    pub switch_hash: u64,
    pub random_words: u64,
}

thread_local! {
    static STATS: RefCell<SchedStats> = RefCell::new(SchedStats::default());
}

/// scheduling decisions taken so far in the execution running on this OS thread
pub fn decisions_so_far() -> u64 {
    STATS.with(|s| s.borrow().decisions)
}

pub fn take_stats() -> SchedStats {
    STATS.with(|s| std::mem::take(&mut *s.borrow_mut()))
}

pub struct SimScheduler {
    rng: Rng,
    data_rng: Rng,
    knobs: SchedKnobs,
    started: bool,
    last_ran_us: BTreeMap<usize, u64>,
    last_task: Option<usize>,
}

impl SimScheduler {
    pub fn new(seed: u64, knobs: SchedKnobs) -> Self {
        STATS.with(|s| *s.borrow_mut() = SchedStats::default());
        SimScheduler {
            rng: Rng::new(crate::rng::derive(seed, "sched.task", 0)),
            data_rng: Rng::new(crate::rng::derive(seed, "sched.data", 0)),
            knobs,
            started: false,
            last_ran_us: BTreeMap::new(),
            last_task: None,
        }
    }
}

impl Scheduler for SimScheduler {
    fn new_execution(&mut self) -> Option<Schedule> {
        // exactly one execution per scheduler (and per OS thread), see DESIGN 2.4-3
        if self.started {
            return None;
        }
        self.started = true;
        Some(Schedule::new(0))
    }

    fn next_task(&mut self, runnable: &[&Task], current: Option<TaskId>, _is_yielding: bool) -> Option<TaskId> {
        let now = clock::now_us();
        let is_clock = |t: &&Task| t.name().as_deref() == Some(clock::CLOCK_TASK_NAME);
        let clock_task = runnable.iter().find(|t| is_clock(t)).map(|t| t.id());
        let others: Vec<TaskId> = runnable.iter().filter(|t| !is_clock(t)).map(|t| t.id()).collect();

        let mut candidates: Vec<TaskId> = others.clone();
        let mut quiescent_jump = false;
        if let Some(ct) = clock_task {
            if others.is_empty() {
                candidates.push(ct);
                quiescent_jump = true;
            } else if self.knobs.early_coin > 0 && self.rng.below(self.knobs.early_coin as usize) == 0 {
                // early firing, bounded by the fairness assumption
                let allowed = match clock::next_deadline_us() {
                    Some(deadline) => others.iter().all(|t| {
                        let last = self.last_ran_us.get(&usize::from(*t)).copied().unwrap_or(now);
                        deadline <= last.saturating_add(self.knobs.stall_bound_us)
                    }),
                    // no timer pending: running the daemon is harmless (it will block)
                    None => true,
                };
                if allowed {
                    candidates.push(ct);
                }
            }
        }
        if candidates.is_empty() {
            // cannot happen: runnable is non-empty
            candidates.push(runnable[0].id());
        }
        let cur = current.map(usize::from);
        let stay = cur
            .and_then(|c| candidates.iter().find(|t| usize::from(**t) == c).cloned())
            .filter(|_| self.knobs.stay_bias > 0 && (self.rng.below(100) as u32) < self.knobs.stay_bias);
        let chosen = match stay {
            Some(t) => t,
            None => candidates[self.rng.below(candidates.len())],
        };
        let cid = usize::from(chosen);
        clock::set_chosen_at_quiescence(Some(chosen) == clock_task && quiescent_jump);
        if Some(chosen) == clock_task {
            if quiescent_jump {
                clock::note_quiescence_jump();
            } else {
                clock::note_early_firing();
            }
        } else {
            self.last_ran_us.insert(cid, now);
        }
        // tasks that are not runnable are not "stalled": forget them
        let runnable_ids: Vec<usize> = runnable.iter().map(|t| usize::from(t.id())).collect();
        self.last_ran_us.retain(|k, _| runnable_ids.contains(k));
        for id in &runnable_ids {
            self.last_ran_us.entry(*id).or_insert(now);
        }
        STATS.with(|s| {
            let mut s = s.borrow_mut();
            s.decisions += 1;
            s.max_runnable = s.max_runnable.max(runnable.len());
            s.tasks_seen = s.tasks_seen.max(cid + 1);
            if self.last_task != Some(cid) {
                s.context_switches += 1;
                s.switch_hash = crate::rng::fnv64_extend(
                    if s.switch_hash == 0 { 0xcbf2_9ce4_8422_2325 } else { s.switch_hash },
                    &(cid as u32).to_le_bytes(),
                );
            }
        });
        self.last_task = Some(cid);
        Some(chosen)
    }

    fn next_u64(&mut self) -> u64 {
        STATS.with(|s| s.borrow_mut().random_words += 1);
        self.data_rng.next_u64()
    }
}
