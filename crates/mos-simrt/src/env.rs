//! Process environment seam: working directory of the simulated process.
use std::cell::RefCell;
use std::path::PathBuf;

thread_local! {
    static CWD: RefCell<Option<PathBuf>> = const { RefCell::new(None) };
}

pub fn set_cwd(p: Option<PathBuf>) {
    CWD.with(|c| *c.borrow_mut() = p);
}

pub fn cwd() -> Option<PathBuf> {
    CWD.with(|c| c.borrow().clone())
}
