//! One integer decides everything: splitmix64 streams derived from VERIF_SEED.

#[derive(Clone, Debug)]
pub struct Rng {
    s: u64,
}

pub fn mix(mut z: u64) -> u64 {
    z = z.wrapping_add(0x9e37_79b9_7f4a_7c15);
    z = (z ^ (z >> 30)).wrapping_mul(0xbf58_476d_1ce4_e5b9);
    z = (z ^ (z >> 27)).wrapping_mul(0x94d0_49bb_1331_11eb);
    z ^ (z >> 31)
}

/// Derive a sub-seed from a seed and a label (stable, order independent).
pub fn derive(seed: u64, label: &str, k: u64) -> u64 {
    let mut h = mix(seed ^ 0x6d6f_735f_7665_7269);
    for b in label.bytes() {
        h = mix(h ^ b as u64);
    }
    mix(h ^ k.wrapping_mul(0x2545_f491_4f6c_dd1d))
}

impl Rng {
    pub fn new(seed: u64) -> Self {
        Rng { s: seed }
    }
    pub fn next_u64(&mut self) -> u64 {
        self.s = self.s.wrapping_add(0x9e37_79b9_7f4a_7c15);
        let mut z = self.s;
        z = (z ^ (z >> 30)).wrapping_mul(0xbf58_476d_1ce4_e5b9);
        z = (z ^ (z >> 27)).wrapping_mul(0x94d0_49bb_1331_11eb);
        z ^ (z >> 31)
    }
    /// uniform in 0..n (n > 0)
    pub fn below(&mut self, n: usize) -> usize {
        debug_assert!(n > 0);
        (self.next_u64() % (n as u64)) as usize
    }
    pub fn range(&mut self, lo: usize, hi_incl: usize) -> usize {
        lo + self.below(hi_incl - lo + 1)
    }
    /// true with probability num/den
    pub fn chance(&mut self, num: u32, den: u32) -> bool {
        (self.next_u64() % den as u64) < num as u64
    }
    pub fn pick<'a, T>(&mut self, xs: &'a [T]) -> &'a T {
        &xs[self.below(xs.len())]
    }
    pub fn pick_str<'a>(&mut self, xs: &[&'a str]) -> &'a str {
        xs[self.below(xs.len())]
    }
    pub fn weighted(&mut self, w: &[u32]) -> usize {
        let total: u64 = w.iter().map(|x| *x as u64).sum();
        let mut r = self.next_u64() % total.max(1);
        for (i, x) in w.iter().enumerate() {
            if r < *x as u64 {
                return i;
            }
            r -= *x as u64;
        }
        w.len() - 1
    }
    pub fn shuffle<T>(&mut self, xs: &mut [T]) {
        for i in (1..xs.len()).rev() {
            let j = self.below(i + 1);
            xs.swap(i, j);
        }
    }
    pub fn fork(&mut self) -> Rng {
        Rng::new(self.next_u64())
    }
}

/// FNV-1a 64, used for log hashes and signatures (stable across runs).
pub fn fnv64(bytes: &[u8]) -> u64 {
    let mut h: u64 = 0xcbf2_9ce4_8422_2325;
    for b in bytes {
        h ^= *b as u64;
        h = h.wrapping_mul(0x0000_0100_0000_01b3);
    }
    h
}

pub fn fnv64_extend(mut h: u64, bytes: &[u8]) -> u64 {
    for b in bytes {
        h ^= *b as u64;
        h = h.wrapping_mul(0x0000_0100_0000_01b3);
    }
    h
}
