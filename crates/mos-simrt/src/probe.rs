//! Reach probes: "this rare condition was hit" counters. Thread-local,
//! never draw randomness, never a scheduling point.
use std::cell::RefCell;
use std::collections::BTreeMap;

thread_local! {
    static PROBES: RefCell<BTreeMap<&'static str, u64>> = const { RefCell::new(BTreeMap::new()) };
}

pub fn hit(name: &'static str) {
    let _ = PROBES.try_with(|p| {
        *p.borrow_mut().entry(name).or_insert(0) += 1;
    });
}

pub fn add(name: &'static str, n: u64) {
    let _ = PROBES.try_with(|p| {
        *p.borrow_mut().entry(name).or_insert(0) += n;
    });
}

pub fn get(name: &'static str) -> u64 {
    PROBES
        .try_with(|p| p.borrow().get(name).copied().unwrap_or(0))
        .unwrap_or(0)
}

pub fn take() -> BTreeMap<&'static str, u64> {
    PROBES.with(|p| std::mem::take(&mut *p.borrow_mut()))
}

pub fn reset() {
    PROBES.with(|p| p.borrow_mut().clear());
}

#[macro_export]
macro_rules! probe {
    ($name:expr) => {
        $crate::probe::hit($name)
    };
}
