//! Allocator seam: what a fresh allocation contains is one more thing that differs between two runs of a program
//! (the allocator hands back memory that held something else before: addresses, under ASLR different in every
//! process). In a simulated process - a thread with an entropy seed - every fresh allocation is filled with a
//! pattern derived from that seed, so code that lets uninitialised bytes reach an output disagrees with itself
//! between two simulated processes, deterministically. `alloc_zeroed` stays zeroed; threads without a seed (the
//! harness) get the system allocator as it is.

use std::alloc::{GlobalAlloc, Layout, System};

pub struct PoisonAlloc;

/// allocations larger than this are poisoned only up to here (cost)
const POISON_LIMIT: usize = 1 << 20;

unsafe impl GlobalAlloc for PoisonAlloc {
    unsafe fn alloc(&self, layout: Layout) -> *mut u8 {
        let p = System.alloc(layout);
        if !p.is_null() {
            if let Some(pattern) = crate::entropy::poison_pattern() {
                let n = layout.size().min(POISON_LIMIT);
                let bytes = pattern.to_le_bytes();
                let mut i = 0;
                while i < n {
                    *p.add(i) = bytes[i & 7];
                    i += 1;
                }
                crate::entropy::note_poisoned(n);
            }
        }
        p
    }

    unsafe fn dealloc(&self, ptr: *mut u8, layout: Layout) {
        System.dealloc(ptr, layout)
    }

    unsafe fn alloc_zeroed(&self, layout: Layout) -> *mut u8 {
        System.alloc_zeroed(layout)
    }

    // realloc: the default implementation (alloc + copy + dealloc) leaves the new tail poisoned
}
