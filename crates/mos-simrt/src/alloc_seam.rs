//! Allocator seam: what a fresh allocation contains is one more thing that differs between two runs of a program
//! (the allocator hands back memory that held something else before: addresses, under ASLR different in every
//! process). In a simulated process - a thread with an entropy seed - every fresh allocation is filled with a
//! pattern derived from that seed, so code that lets uninitialised bytes reach an output disagrees with itself
//! between two simulated processes, deterministically. `alloc_zeroed` stays zeroed; threads without a seed (the
//! harness) get the system allocator as it is.

use std::alloc::{GlobalAlloc, Layout, System};

pub struct PoisonAlloc;

/// Memory as a logical clock. A simulated process (a thread with an entropy seed) that holds more than this many
/// bytes of live allocations is a runaway: the largest legitimate workload of the corpora needs a few hundred MB.
/// On a real machine such a process is killed by the OOM killer or aborts on a failed allocation; sixteen of them
/// take the sandbox down first. The process that hosts it exits with status 97, which the supervisor reports as
/// the death of that simulated process (bisected to the case and replayed alone, like a stack overflow).
pub const LIVE_BUDGET: isize = 3 << 30;
pub const EXIT_MEMORY_BUDGET: i32 = 97;

thread_local! {
    static LIVE: std::cell::Cell<isize> = const { std::cell::Cell::new(0) };
}

/// called when a simulated process starts on this thread
pub fn reset_live() {
    let _ = LIVE.try_with(|l| l.set(0));
}

extern "C" {
    fn _exit(code: i32) -> !;
    fn write(fd: i32, buf: *const u8, n: usize) -> isize;
}

#[inline]
fn account(delta: isize) {
    let over = LIVE
        .try_with(|l| {
            let v = l.get() + delta;
            l.set(v);
            v > LIVE_BUDGET
        })
        .unwrap_or(false);
    if over {
        let msg = b"VERIF-MEMORY-BUDGET: a simulated process holds more than 3 GiB of live allocations\n";
        unsafe {
            write(2, msg.as_ptr(), msg.len());
            _exit(EXIT_MEMORY_BUDGET);
        }
    }
}

/// allocations larger than this are poisoned only up to here (cost)
const POISON_LIMIT: usize = 1 << 20;

unsafe impl GlobalAlloc for PoisonAlloc {
    unsafe fn alloc(&self, layout: Layout) -> *mut u8 {
        let p = System.alloc(layout);
        if !p.is_null() {
            if let Some(pattern) = crate::entropy::poison_pattern() {
                let n = layout.size().min(POISON_LIMIT);
                let bytes = pattern.to_le_bytes();
                let mut i = 0;
                while i < n {
                    *p.add(i) = bytes[i & 7];
                    i += 1;
                }
                crate::entropy::note_poisoned(n);
                account(layout.size() as isize);
            }
        }
        p
    }

    unsafe fn dealloc(&self, ptr: *mut u8, layout: Layout) {
        if crate::entropy::poison_pattern().is_some() {
            account(-(layout.size() as isize));
        }
        System.dealloc(ptr, layout)
    }

    unsafe fn alloc_zeroed(&self, layout: Layout) -> *mut u8 {
        let p = System.alloc_zeroed(layout);
        if !p.is_null() && crate::entropy::poison_pattern().is_some() {
            account(layout.size() as isize);
        }
        p
    }

    // realloc: the default implementation (alloc + copy + dealloc) leaves the new tail poisoned
}
