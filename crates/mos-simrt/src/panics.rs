//! Quiet panic capture: a process-wide hook that records message+location in
//! a thread-local instead of printing, for threads that opted in.
use std::cell::RefCell;
use std::sync::Once;

#[derive(Clone, Debug, PartialEq, Eq)]
pub struct PanicInfo {
    pub message: String,
    pub location: String,
}

thread_local! {
    static CAPTURE: RefCell<Option<Vec<PanicInfo>>> = const { RefCell::new(None) };
}

static HOOK: Once = Once::new();

pub fn install_hook() {
    HOOK.call_once(|| {
        let prev = std::panic::take_hook();
        std::panic::set_hook(Box::new(move |info| {
            let msg = if let Some(s) = info.payload().downcast_ref::<&str>() {
                s.to_string()
            } else if let Some(s) = info.payload().downcast_ref::<String>() {
                s.clone()
            } else {
                "<non-string panic payload>".to_string()
            };
            let loc = info
                .location()
                .map(|l| format!("{}:{}", l.file(), l.line()))
                .unwrap_or_else(|| "<unknown>".into());
            // (a process that is going to die of a panic inside a destructor tells its parent what came first)
            if std::env::var_os("VERIF_PANIC_ECHO").is_some() && !msg.contains("VERIF-ABORT") {
                eprintln!("VERIF-PANIC: {} at {}", msg.chars().take(300).collect::<String>(), loc);
            }
            let captured = CAPTURE
                .try_with(|c| {
                    if let Some(v) = c.borrow_mut().as_mut() {
                        v.push(PanicInfo {
                            message: msg.clone(),
                            location: loc.clone(),
                        });
                        true
                    } else {
                        false
                    }
                })
                .unwrap_or(false);
            if !captured {
                prev(info);
            }
        }));
    });
}

/// Start capturing panics on this thread (silences the default message).
pub fn begin_capture() {
    install_hook();
    CAPTURE.with(|c| *c.borrow_mut() = Some(Vec::new()));
}

pub fn end_capture() -> Vec<PanicInfo> {
    CAPTURE.with(|c| c.borrow_mut().take().unwrap_or_default())
}

pub fn peek() -> Vec<PanicInfo> {
    CAPTURE.with(|c| c.borrow().clone().unwrap_or_default())
}
