//! OS entropy seam. std's `RandomState` takes its keys from `getrandom(2)`
//! once per OS thread; the harness binary interposes the libc symbol and
//! forwards to `fill` below. With a seed installed on the thread the bytes
//! come from a splitmix64 stream, so "fresh thread + seed" is one exactly
//! repeatable "fresh process" as far as hash iteration order is concerned.

use std::cell::Cell;

thread_local! {
    static SEED: Cell<Option<u64>> = const { Cell::new(None) };
    static CALLS: Cell<u64> = const { Cell::new(0) };
    static MONO_CALLS: Cell<u64> = const { Cell::new(0) };
    static CLOCK_JUMPS: Cell<u64> = const { Cell::new(0) };
    static POISON: Cell<u64> = const { Cell::new(0) };
    static POISONED_BYTES: Cell<u64> = const { Cell::new(0) };
    static LISTINGS: Cell<u64> = const { Cell::new(0) };
}

pub fn set_seed(seed: Option<u64>) {
    SEED.with(|s| s.set(seed));
    // (the pattern is computed here, not in the allocator: no arithmetic worth mentioning on the allocation path)
    POISON.with(|p| p.set(seed.map(|s| crate::rng::derive(s, "alloc.poison", 0) | 0x0101_0101_0101_0101).unwrap_or(0)));
    CALLS.with(|c| c.set(0));
    if seed.is_some() {
        crate::alloc_seam::reset_live();
        MONO_CALLS.with(|c| c.set(0));
        CLOCK_JUMPS.with(|c| c.set(0));
        POISONED_BYTES.with(|c| c.set(0));
        LISTINGS.with(|c| c.set(0));
    }
}

/// The process id of the simulated process (one per entropy seed), None outside a simulated process.
pub fn sim_pid() -> Option<u32> {
    match SEED.try_with(|s| s.get()) {
        Ok(Some(s)) => Some(2 + (crate::rng::derive(s, "pid", 0) % 4_000_000) as u32),
        _ => None,
    }
}

/// Wall-clock time (seconds since the epoch) at which the simulated process runs.
pub fn sim_realtime_secs() -> Option<i64> {
    match SEED.try_with(|s| s.get()) {
        Ok(Some(s)) => Some(1_700_000_000 + (crate::rng::derive(s, "realtime", 0) % 100_000_000) as i64),
        _ => None,
    }
}

/// The monotonic clock of the simulated process, in nanoseconds: a millisecond per look at it - and, in one
/// simulated process out of three, one jump of 30 s at a seed-chosen look (the process was suspended, the
/// laptop slept, the container was frozen). Code that decides anything from elapsed real time will decide
/// differently in such a process.
pub fn sim_monotonic_nanos() -> Option<u64> {
    let seed = match SEED.try_with(|s| s.get()) {
        Ok(Some(s)) => s,
        _ => return None,
    };
    let n = MONO_CALLS.with(|c| {
        let n = c.get();
        c.set(n + 1);
        n
    });
    let plan = crate::rng::derive(seed, "monotonic.jump", 0);
    let mut t = 1_000_000_000_000u64 + n * 1_000_000;
    if plan % 3 == 0 && n > (plan >> 8) % 6 {
        if n == (plan >> 8) % 6 + 1 {
            CLOCK_JUMPS.with(|c| c.set(c.get() + 1));
        }
        t += 30_000_000_000;
    }
    Some(t)
}

/// how often the simulated process has looked at its monotonic clock (evidence)
pub fn monotonic_reads() -> u64 {
    MONO_CALLS.with(|c| c.get())
}

/// how often a simulated clock jump has been observed by the simulated process (evidence)
pub fn clock_jumps() -> u64 {
    CLOCK_JUMPS.with(|c| c.get())
}

/// The pattern fresh allocations of this simulated process are filled with (no byte of it is zero); None outside a
/// simulated process. Called from the global allocator: must not allocate.
pub fn poison_pattern() -> Option<u64> {
    match POISON.try_with(|p| p.get()) {
        Ok(0) | Err(_) => None,
        Ok(p) => Some(p),
    }
}

pub fn note_poisoned(n: usize) {
    let _ = POISONED_BYTES.try_with(|c| c.set(c.get().wrapping_add(n as u64)));
}

/// bytes of fresh allocations filled on this thread so far (evidence)
pub fn poisoned_bytes() -> u64 {
    POISONED_BYTES.with(|c| c.get())
}

/// What the order of a directory listing is derived from in this simulated process (0 outside one).
pub fn listing_salt() -> u64 {
    match SEED.try_with(|s| s.get()) {
        Ok(Some(s)) => crate::rng::derive(s, "dir.listing", 0),
        _ => 0,
    }
}

pub fn note_listing() {
    LISTINGS.with(|c| c.set(c.get() + 1));
}

/// directories listed by this simulated process so far (evidence)
pub fn listings() -> u64 {
    LISTINGS.with(|c| c.get())
}

pub fn calls() -> u64 {
    CALLS.with(|c| c.get())
}

/// Fill `buf` from the thread's simulated entropy stream. Returns false when
/// no seed is installed (caller must then use the real syscall).
pub fn fill(buf: &mut [u8]) -> bool {
    let seed = match SEED.try_with(|s| s.get()) {
        Ok(Some(s)) => s,
        _ => return false,
    };
    let mut r = crate::rng::Rng::new(seed);
    for chunk in buf.chunks_mut(8) {
        let v = r.next_u64().to_le_bytes();
        chunk.copy_from_slice(&v[..chunk.len()]);
    }
    let _ = SEED.try_with(|s| s.set(Some(r.next_u64())));
    let _ = CALLS.try_with(|c| c.set(c.get() + 1));
    true
}
