//! A language server scaffold, exposing a synchronous crossbeam-channel based API.
//! This crate handles protocol handshaking and parsing messages, while you
//! control the message dispatch loop yourself.
//!
//! Run with `RUST_LOG=lsp_server=debug` to see all the messages.
mod msg;
mod stdio;
mod error;
mod socket;
mod req_queue;

use std::net::{TcpStream, ToSocketAddrs};

use crossbeam_channel::{Receiver, Sender};

pub use crate::{
    error::ProtocolError,
    msg::{ErrorCode, Message, Notification, Request, RequestId, Response, ResponseError},
    req_queue::{Incoming, Outgoing, ReqQueue},
    stdio::IoThreads,
};

/// Connection is just a pair of channels of LSP messages.
pub struct Connection {
    pub sender: Sender<Message>,
    pub receiver: Receiver<Message>,
}

impl Connection {
    /// Create connection over standard in/standard out.
    ///
    /// Use this to create a real language server.
    pub fn stdio() -> (Connection, IoThreads) {
        let (sender, receiver, io_threads) = stdio::stdio_transport();
        (Connection { sender, receiver }, io_threads)
    }

    /// Create connection over standard in/sockets out.
    ///
    /// Use this to create a real language server.
    pub fn socket<A: ToSocketAddrs>(addr: A) -> (Connection, IoThreads) {
        let stream = TcpStream::connect(addr).expect("Couldn't connect to the server...");
        let (sender, receiver, io_threads) = socket::socket_transport(stream);
        (Connection { sender, receiver }, io_threads)
    }

    /// Creates a pair of connected connections.
    ///
    /// Use this for testing.
    pub fn memory() -> (Connection, Connection) {
        let (s1, r1) = crossbeam_channel::unbounded();
        let (s2, r2) = crossbeam_channel::unbounded();
        (Connection { sender: s1, receiver: r2 }, Connection { sender: s2, receiver: r1 })
    }

    /// Starts the initialization process by waiting for an initialize
    /// request from the client. Use this for more advanced customization than
    /// `initialize` can provide.
    ///
    /// Returns the request id and serialized `InitializeParams` from the client.
    ///
    /// # Example
    ///
    /// ```no_run
    /// use std::error::Error;
    /// use lsp_types::{ClientCapabilities, InitializeParams, ServerCapabilities};
    ///
    /// use lsp_server::{Connection, Message, Request, RequestId, Response};
    ///
    /// fn main() -> Result<(), Box<dyn Error + Sync + Send>> {
    ///    // Create the transport. Includes the stdio (stdin and stdout) versions but this could
    ///    // also be implemented to use sockets or HTTP.
    ///    let (connection, io_threads) = Connection::stdio();
    ///
    ///    // Run the server
    ///    let (id, params) = connection.initialize_start()?;
    ///
    ///    let init_params: InitializeParams = serde_json::from_value(params).unwrap();
    ///    let client_capabilities: ClientCapabilities = init_params.capabilities;
    ///    let server_capabilities = ServerCapabilities::default();
    ///
    ///    let initialize_data = serde_json::json!({
    ///        "capabilities": server_capabilities,
    ///        "serverInfo": {
    ///            "name": "lsp-server-test",
    ///            "version": "0.1"
    ///        }
    ///    });
    ///
    ///    connection.initialize_finish(id, initialize_data)?;
    ///
    ///    // ... Run main loop ...
    ///
    ///    Ok(())
    /// }
    /// ```
    pub fn initialize_start(&self) -> Result<(RequestId, serde_json::Value), ProtocolError> {
        loop {
            match self.receiver.recv() {
                Ok(Message::Request(req)) => {
                    if req.is_initialize() {
                        return Ok((req.id, req.params));
                    } else {
                        // Respond to non-initialize requests with ServerNotInitialized
                        let resp = Response::new_err(
                            req.id.clone(),
                            ErrorCode::ServerNotInitialized as i32,
                            format!("expected initialize request, got {:?}", req),
                        );
                        self.sender.send(resp.into()).unwrap();
                    }
                }
                msg => {
                    return Err(ProtocolError(format!(
                        "expected initialize request, got {:?}",
                        msg
                    )))
                }
            };
        }
    }

    /// Finishes the initialization process by sending an `InitializeResult` to the client
    pub fn initialize_finish(
        &self,
        initialize_id: RequestId,
        initialize_result: serde_json::Value,
    ) -> Result<(), ProtocolError> {
        let resp = Response::new_ok(initialize_id, initialize_result);
        self.sender.send(resp.into()).unwrap();
        match &self.receiver.recv() {
            Ok(Message::Notification(n)) if n.is_initialized() => (),
            m => {
                return Err(ProtocolError(format!(
                    "expected initialized notification, got {:?}",
                    m
                )))
            }
        }
        Ok(())
    }

    /// Initialize the connection. Sends the server capabilities
    /// to the client and returns the serialized client capabilities
    /// on success. If more fine-grained initialization is required use
    /// `initialize_start`/`initialize_finish`.
    ///
    /// # Example
    ///
    /// ```no_run
    /// use std::error::Error;
    /// use lsp_types::ServerCapabilities;
    ///
    /// use lsp_server::{Connection, Message, Request, RequestId, Response};
    ///
    /// fn main() -> Result<(), Box<dyn Error + Sync + Send>> {
    ///    // Create the transport. Includes the stdio (stdin and stdout) versions but this could
    ///    // also be implemented to use sockets or HTTP.
    ///    let (connection, io_threads) = Connection::stdio();
    ///
    ///    // Run the server
    ///    let server_capabilities = serde_json::to_value(&ServerCapabilities::default()).unwrap();
    ///    let initialization_params = connection.initialize(server_capabilities)?;
    ///
    ///    // ... Run main loop ...
    ///
    ///    Ok(())
    /// }
    /// ```
    pub fn initialize(
        &self,
        server_capabilities: serde_json::Value,
    ) -> Result<serde_json::Value, ProtocolError> {
        let (id, params) = self.initialize_start()?;

        let initialize_data = serde_json::json!({
            "capabilities": server_capabilities,
        });

        self.initialize_finish(id, initialize_data)?;

        Ok(params)
    }

    /// If `req` is `Shutdown`, respond to it and return `true`, otherwise return `false`
    pub fn handle_shutdown(&self, req: &Request) -> Result<bool, ProtocolError> {
        if !req.is_shutdown() {
            return Ok(false);
        }
        let resp = Response::new_ok(req.id.clone(), ());
        let _ = self.sender.send(resp.into());
        match &self.receiver.recv_timeout(std::time::Duration::from_secs(30)) {
            Ok(Message::Notification(n)) if n.is_exit() => (),
            m => return Err(ProtocolError(format!("unexpected message during shutdown: {:?}", m))),
        }
        Ok(true)
    }
}
