use std::collections::HashMap;

use serde::Serialize;

use crate::{ErrorCode, Request, RequestId, Response, ResponseError};

/// Manages the set of pending requests, both incomming and outgoing.
#[derive(Debug)]
pub struct ReqQueue<I, O> {
    pub incoming: Incoming<I>,
    pub outgoing: Outgoing<O>,
}

impl<I, O> Default for ReqQueue<I, O> {
    fn default() -> ReqQueue<I, O> {
        ReqQueue {
            incoming: Incoming { pending: HashMap::default() },
            outgoing: Outgoing { next_id: 0, pending: HashMap::default() },
        }
    }
}

#[derive(Debug)]
pub struct Incoming<I> {
    pending: HashMap<RequestId, I>,
}

#[derive(Debug)]
pub struct Outgoing<O> {
    next_id: i32,
    pending: HashMap<RequestId, O>,
}

impl<I> Incoming<I> {
    pub fn register(&mut self, id: RequestId, data: I) {
        self.pending.insert(id, data);
    }
    pub fn cancel(&mut self, id: RequestId) -> Option<Response> {
        let _data = self.complete(id.clone())?;
        let error = ResponseError {
            code: ErrorCode::RequestCanceled as i32,
            message: "canceled by client".to_string(),
            data: None,
        };
        Some(Response { id, result: None, error: Some(error) })
    }
    pub fn complete(&mut self, id: RequestId) -> Option<I> {
        self.pending.remove(&id)
    }
}

impl<O> Outgoing<O> {
    pub fn register<P: Serialize>(&mut self, method: String, params: P, data: O) -> Request {
        let id = RequestId::from(self.next_id);
        self.pending.insert(id.clone(), data);
        self.next_id += 1;
        Request::new(id, method, params)
    }
    pub fn complete(&mut self, id: RequestId) -> O {
        self.pending.remove(&id).unwrap()
    }
}
