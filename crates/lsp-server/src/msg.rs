use std::{
    fmt,
    io::{self, BufRead, Write},
};

use serde::{de::DeserializeOwned, Deserialize, Serialize};

#[derive(Serialize, Deserialize, Debug, Clone)]
#[serde(untagged)]
pub enum Message {
    Request(Request),
    Response(Response),
    Notification(Notification),
}

impl From<Request> for Message {
    fn from(request: Request) -> Message {
        Message::Request(request)
    }
}

impl From<Response> for Message {
    fn from(response: Response) -> Message {
        Message::Response(response)
    }
}

impl From<Notification> for Message {
    fn from(notification: Notification) -> Message {
        Message::Notification(notification)
    }
}

#[derive(Debug, Serialize, Deserialize, Clone, PartialEq, Eq, PartialOrd, Ord, Hash)]
#[serde(transparent)]
pub struct RequestId(IdRepr);

#[derive(Debug, Serialize, Deserialize, Clone, PartialEq, Eq, PartialOrd, Ord, Hash)]
#[serde(untagged)]
enum IdRepr {
    I32(i32),
    String(String),
}

impl From<i32> for RequestId {
    fn from(id: i32) -> RequestId {
        RequestId(IdRepr::I32(id))
    }
}

impl From<String> for RequestId {
    fn from(id: String) -> RequestId {
        RequestId(IdRepr::String(id))
    }
}

impl fmt::Display for RequestId {
    fn fmt(&self, f: &mut fmt::Formatter<'_>) -> fmt::Result {
        match &self.0 {
            IdRepr::I32(it) => fmt::Display::fmt(it, f),
            // Use debug here, to make it clear that `92` and `"92"` are
            // different, and to reduce WTF factor if the sever uses `" "` as an
            // ID.
            IdRepr::String(it) => fmt::Debug::fmt(it, f),
        }
    }
}

#[derive(Debug, Serialize, Deserialize, Clone)]
pub struct Request {
    pub id: RequestId,
    pub method: String,
    #[serde(default = "serde_json::Value::default")]
    #[serde(skip_serializing_if = "serde_json::Value::is_null")]
    pub params: serde_json::Value,
}

#[derive(Debug, Serialize, Deserialize, Clone)]
pub struct Response {
    // JSON RPC allows this to be null if it was impossible
    // to decode the request's id. Ignore this special case
    // and just die horribly.
    pub id: RequestId,
    #[serde(skip_serializing_if = "Option::is_none")]
    pub result: Option<serde_json::Value>,
    #[serde(skip_serializing_if = "Option::is_none")]
    pub error: Option<ResponseError>,
}

#[derive(Debug, Serialize, Deserialize, Clone)]
pub struct ResponseError {
    pub code: i32,
    pub message: String,
    #[serde(skip_serializing_if = "Option::is_none")]
    pub data: Option<serde_json::Value>,
}

#[derive(Clone, Copy, Debug)]
#[allow(unused)]
pub enum ErrorCode {
    // Defined by JSON RPC:
    ParseError = -32700,
    InvalidRequest = -32600,
    MethodNotFound = -32601,
    InvalidParams = -32602,
    InternalError = -32603,
    ServerErrorStart = -32099,
    ServerErrorEnd = -32000,

    /// Error code indicating that a server received a notification or
    /// request before the server has received the `initialize` request.
    ServerNotInitialized = -32002,
    UnknownErrorCode = -32001,

    // Defined by the protocol:
    /// The client has canceled a request and a server has detected
    /// the cancel.
    RequestCanceled = -32800,

    /// The server detected that the content of a document got
    /// modified outside normal conditions. A server should
    /// NOT send this error code if it detects a content change
    /// in it unprocessed messages. The result even computed
    /// on an older state might still be useful for the client.
    ///
    /// If a client decides that a result is not of any use anymore
    /// the client should cancel the request.
    ContentModified = -32801,

    /// The server cancelled the request. This error code should
    /// only be used for requests that explicitly support being
    /// server cancellable.
    ///
    /// @since 3.17.0
    ServerCancelled = -32802,
}

#[derive(Debug, Serialize, Deserialize, Clone)]
pub struct Notification {
    pub method: String,
    #[serde(default = "serde_json::Value::default")]
    #[serde(skip_serializing_if = "serde_json::Value::is_null")]
    pub params: serde_json::Value,
}

impl Message {
    pub fn read(r: &mut impl BufRead) -> io::Result<Option<Message>> {
        Message::_read(r)
    }
    fn _read(r: &mut dyn BufRead) -> io::Result<Option<Message>> {
        let text = match read_msg_text(r)? {
            None => return Ok(None),
            Some(text) => text,
        };
        let msg = serde_json::from_str(&text)?;
        Ok(Some(msg))
    }
    pub fn write(self, w: &mut impl Write) -> io::Result<()> {
        self._write(w)
    }
    pub fn _write(self, w: &mut dyn Write) -> io::Result<()> {
        #[derive(Serialize)]
        struct JsonRpc {
            jsonrpc: &'static str,
            #[serde(flatten)]
            msg: Message,
        }
        let text = serde_json::to_string(&JsonRpc { jsonrpc: "2.0", msg: self })?;
        write_msg_text(w, &text)
    }
}

impl Response {
    pub fn new_ok<R: Serialize>(id: RequestId, result: R) -> Response {
        Response { id, result: Some(serde_json::to_value(result).unwrap()), error: None }
    }
    pub fn new_err(id: RequestId, code: i32, message: String) -> Response {
        let error = ResponseError { code, message, data: None };
        Response { id, result: None, error: Some(error) }
    }
}

impl Request {
    pub fn new<P: Serialize>(id: RequestId, method: String, params: P) -> Request {
        Request { id, method, params: serde_json::to_value(params).unwrap() }
    }
    pub fn extract<P: DeserializeOwned>(self, method: &str) -> Result<(RequestId, P), Request> {
        if self.method == method {
            let params = serde_json::from_value(self.params).unwrap_or_else(|err| {
                panic!("Invalid request\nMethod: {}\n error: {}", method, err)
            });
            Ok((self.id, params))
        } else {
            Err(self)
        }
    }

    pub(crate) fn is_shutdown(&self) -> bool {
        self.method == "shutdown"
    }
    pub(crate) fn is_initialize(&self) -> bool {
        self.method == "initialize"
    }
}

impl Notification {
    pub fn new(method: String, params: impl Serialize) -> Notification {
        Notification { method, params: serde_json::to_value(params).unwrap() }
    }
    pub fn extract<P: DeserializeOwned>(self, method: &str) -> Result<P, Notification> {
        if self.method == method {
            let params = serde_json::from_value(self.params).unwrap_or_else(|err| {
                panic!("Invalid notification\nMethod: {}\n error: {}", method, err)
            });
            Ok(params)
        } else {
            Err(self)
        }
    }
    pub(crate) fn is_exit(&self) -> bool {
        self.method == "exit"
    }
    pub(crate) fn is_initialized(&self) -> bool {
        self.method == "initialized"
    }
}

fn read_msg_text(inp: &mut dyn BufRead) -> io::Result<Option<String>> {
    fn invalid_data(error: impl Into<Box<dyn std::error::Error + Send + Sync>>) -> io::Error {
        io::Error::new(io::ErrorKind::InvalidData, error)
    }
    macro_rules! invalid_data {
        ($($tt:tt)*) => (invalid_data(format!($($tt)*)))
    }

    let mut size = None;
    let mut buf = String::new();
    loop {
        buf.clear();
        if inp.read_line(&mut buf)? == 0 {
            return Ok(None);
        }
        if !buf.ends_with("\r\n") {
            return Err(invalid_data!("malformed header: {:?}", buf));
        }
        let buf = &buf[..buf.len() - 2];
        if buf.is_empty() {
            break;
        }
        let mut parts = buf.splitn(2, ": ");
        let header_name = parts.next().unwrap();
        let header_value =
            parts.next().ok_or_else(|| invalid_data!("malformed header: {:?}", buf))?;
        if header_name == "Content-Length" {
            size = Some(header_value.parse::<usize>().map_err(invalid_data)?);
        }
    }
    let size: usize = size.ok_or_else(|| invalid_data!("no Content-Length"))?;
    let mut buf = buf.into_bytes();
    buf.resize(size, 0);
    inp.read_exact(&mut buf)?;
    let buf = String::from_utf8(buf).map_err(invalid_data)?;
    log::debug!("< {}", buf);
    Ok(Some(buf))
}

fn write_msg_text(out: &mut dyn Write, msg: &str) -> io::Result<()> {
    log::debug!("> {}", msg);
    write!(out, "Content-Length: {}\r\n\r\n", msg.len())?;
    out.write_all(msg.as_bytes())?;
    out.flush()?;
    Ok(())
}

#[cfg(test)]
mod tests {
    use super::{Message, Notification, Request, RequestId};

    #[test]
    fn shutdown_with_explicit_null() {
        let text = "{\"jsonrpc\": \"2.0\",\"id\": 3,\"method\": \"shutdown\", \"params\": null }";
        let msg: Message = serde_json::from_str(&text).unwrap();

        assert!(
            matches!(msg, Message::Request(req) if req.id == 3.into() && req.method == "shutdown")
        );
    }

    #[test]
    fn shutdown_with_no_params() {
        let text = "{\"jsonrpc\": \"2.0\",\"id\": 3,\"method\": \"shutdown\"}";
        let msg: Message = serde_json::from_str(&text).unwrap();

        assert!(
            matches!(msg, Message::Request(req) if req.id == 3.into() && req.method == "shutdown")
        );
    }

    #[test]
    fn notification_with_explicit_null() {
        let text = "{\"jsonrpc\": \"2.0\",\"method\": \"exit\", \"params\": null }";
        let msg: Message = serde_json::from_str(&text).unwrap();

        assert!(matches!(msg, Message::Notification(not) if not.method == "exit"));
    }

    #[test]
    fn notification_with_no_params() {
        let text = "{\"jsonrpc\": \"2.0\",\"method\": \"exit\"}";
        let msg: Message = serde_json::from_str(&text).unwrap();

        assert!(matches!(msg, Message::Notification(not) if not.method == "exit"));
    }

    #[test]
    fn serialize_request_with_null_params() {
        let msg = Message::Request(Request {
            id: RequestId::from(3),
            method: "shutdown".into(),
            params: serde_json::Value::Null,
        });
        let serialized = serde_json::to_string(&msg).unwrap();

        assert_eq!("{\"id\":3,\"method\":\"shutdown\"}", serialized);
    }

    #[test]
    fn serialize_notification_with_null_params() {
        let msg = Message::Notification(Notification {
            method: "exit".into(),
            params: serde_json::Value::Null,
        });
        let serialized = serde_json::to_string(&msg).unwrap();

        assert_eq!("{\"method\":\"exit\"}", serialized);
    }
}
