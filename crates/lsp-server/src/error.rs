use std::fmt;

#[derive(Debug, Clone)]
pub struct ProtocolError(pub(crate) String);

impl std::error::Error for ProtocolError {}

impl fmt::Display for ProtocolError {
    fn fmt(&self, f: &mut fmt::Formatter<'_>) -> fmt::Result {
        fmt::Display::fmt(&self.0, f)
    }
}
