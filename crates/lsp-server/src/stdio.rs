// VERIF: the only modification of this crate -- simulated pipes and simulated threads
use mos_simrt::pipe::{stdin, stdout};
use mos_simrt::std_shim::thread;
use std::io;

use crossbeam_channel::{bounded, Receiver, Sender};

use crate::Message;

/// Creates an LSP connection via stdio.
pub(crate) fn stdio_transport() -> (Sender<Message>, Receiver<Message>, IoThreads) {
    let (writer_sender, writer_receiver) = bounded::<Message>(0);
    let writer = thread::spawn(move || {
        let stdout = stdout();
        let mut stdout = stdout.lock();
        writer_receiver.into_iter().try_for_each(|it| it.write(&mut stdout))?;
        Ok(())
    });
    let (reader_sender, reader_receiver) = bounded::<Message>(0);
    let reader = thread::spawn(move || {
        let stdin = stdin();
        let mut stdin = stdin.lock();
        while let Some(msg) = Message::read(&mut stdin)? {
            let is_exit = match &msg {
                Message::Notification(n) => n.is_exit(),
                _ => false,
            };

            reader_sender.send(msg).unwrap();

            if is_exit {
                break;
            }
        }
        Ok(())
    });
    let threads = IoThreads { reader, writer };
    (writer_sender, reader_receiver, threads)
}

// Creates an IoThreads
pub(crate) fn make_io_threads(
    reader: thread::JoinHandle<io::Result<()>>,
    writer: thread::JoinHandle<io::Result<()>>,
) -> IoThreads {
    IoThreads { reader, writer }
}

pub struct IoThreads {
    reader: thread::JoinHandle<io::Result<()>>,
    writer: thread::JoinHandle<io::Result<()>>,
}

impl IoThreads {
    pub fn join(self) -> io::Result<()> {
        match self.reader.join() {
            Ok(r) => r?,
            Err(err) => {
                println!("reader panicked!");
                std::panic::panic_any(err)
            }
        }
        match self.writer.join() {
            Ok(r) => r,
            Err(err) => {
                println!("reader panicked!");
                std::panic::panic_any(err);
            }
        }
    }
}
