// VERIF: same thread type as stdio.rs so that IoThreads type-checks (the socket transport is never run)
use mos_simrt::std_shim::thread;
use std::{
    io::{self, BufReader},
    net::TcpStream,
};

use crossbeam_channel::{bounded, Receiver, Sender};

use crate::{
    stdio::{make_io_threads, IoThreads},
    Message,
};

pub(crate) fn socket_transport(
    stream: TcpStream,
) -> (Sender<Message>, Receiver<Message>, IoThreads) {
    let (reader_receiver, reader) = make_reader(stream.try_clone().unwrap());
    let (writer_sender, writer) = make_write(stream.try_clone().unwrap());
    let io_threads = make_io_threads(reader, writer);
    (writer_sender, reader_receiver, io_threads)
}

fn make_reader(stream: TcpStream) -> (Receiver<Message>, thread::JoinHandle<io::Result<()>>) {
    let (reader_sender, reader_receiver) = bounded::<Message>(0);
    let reader = thread::spawn(move || {
        let mut buf_read = BufReader::new(stream);
        while let Some(msg) = Message::read(&mut buf_read).unwrap() {
            let is_exit = match &msg {
                Message::Notification(n) => n.is_exit(),
                _ => false,
            };
            reader_sender.send(msg).unwrap();
            if is_exit {
                break;
            }
        }
        Ok(())
    });
    (reader_receiver, reader)
}

fn make_write(mut stream: TcpStream) -> (Sender<Message>, thread::JoinHandle<io::Result<()>>) {
    let (writer_sender, writer_receiver) = bounded::<Message>(0);
    let writer = thread::spawn(move || {
        writer_receiver.into_iter().try_for_each(|it| it.write(&mut stream)).unwrap();
        Ok(())
    });
    (writer_sender, writer)
}
