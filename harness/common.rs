//! Shared infrastructure: CLI, seeded parallel batch driver, fresh-thread
//! "simulated process" runner, evidence and replay files, known findings.

use mos_simrt::panics::{self, PanicInfo};
use serde_json::{json, Value};
use std::collections::{BTreeMap, BTreeSet};
use std::path::{Path, PathBuf};
use std::sync::atomic::{AtomicU64, Ordering};
use std::sync::Mutex;
use std::time::Instant;

pub const EXIT_OK: i32 = 0;
pub const EXIT_VIOLATION: i32 = 1;
pub const EXIT_HARNESS: i32 = 2;
pub const DEFAULT_SEED: u64 = 0x6d6f73;

#[derive(Clone, Copy, Debug, PartialEq, Eq)]
pub enum Tier {
    Quick,
    Thorough,
}

impl Tier {
    pub fn name(&self) -> &'static str {
        match self {
            Tier::Quick => "quick",
            Tier::Thorough => "thorough",
        }
    }
}

#[derive(Clone, Debug)]
pub struct Cli {
    pub target: String,
    pub tier: Tier,
    pub seed: u64,
    pub runs: Option<u64>,
    pub workers: usize,
    pub replay: Option<PathBuf>,
    pub mode: Option<String>,
    pub opts: BTreeMap<String, String>,
    pub exe: PathBuf,
}

impl Cli {
    pub fn parse(args: &[String]) -> Result<Cli, String> {
        if args.len() < 2 {
            return Err("usage: simctl <C06|C10|C14|C19|C20> [--tier quick|thorough] [--seed N] [--runs N] [--workers N] [--replay FILE] [--mode M] [--key value ...]".into());
        }
        let mut cli = Cli {
            target: args[1].clone(),
            tier: match std::env::var("VERIF_TIER").ok().as_deref() {
                Some("thorough") => Tier::Thorough,
                _ => Tier::Quick,
            },
            seed: std::env::var("VERIF_SEED")
                .ok()
                .and_then(|s| parse_u64(&s))
                .unwrap_or(DEFAULT_SEED),
            runs: None,
            workers: std::thread::available_parallelism()
                .map(|n| n.get())
                .unwrap_or(4),
            replay: None,
            mode: None,
            opts: BTreeMap::new(),
            exe: std::env::current_exe().unwrap_or_else(|_| PathBuf::from(&args[0])),
        };
        let mut i = 2;
        while i < args.len() {
            let a = args[i].as_str();
            let val = |i: usize| -> Result<&String, String> {
                args.get(i + 1).ok_or(format!("missing value for {}", a))
            };
            match a {
                "--tier" => {
                    cli.tier = match val(i)?.as_str() {
                        "quick" => Tier::Quick,
                        "thorough" => Tier::Thorough,
                        t => return Err(format!("unknown tier {}", t)),
                    };
                    i += 2;
                }
                "--seed" => {
                    cli.seed = parse_u64(val(i)?).ok_or("bad --seed")?;
                    i += 2;
                }
                "--runs" => {
                    cli.runs = Some(parse_u64(val(i)?).ok_or("bad --runs")?);
                    i += 2;
                }
                "--workers" => {
                    cli.workers = parse_u64(val(i)?).ok_or("bad --workers")? as usize;
                    i += 2;
                }
                "--replay" => {
                    cli.replay = Some(PathBuf::from(val(i)?));
                    i += 2;
                }
                "--mode" => {
                    cli.mode = Some(val(i)?.clone());
                    i += 2;
                }
                k if k.starts_with("--") => {
                    cli.opts.insert(k[2..].to_string(), val(i)?.clone());
                    i += 2;
                }
                other => return Err(format!("unexpected argument {}", other)),
            }
        }
        cli.workers = cli.workers.max(1);
        Ok(cli)
    }

    pub fn opt_u64(&self, k: &str) -> Option<u64> {
        self.opts.get(k).and_then(|s| parse_u64(s))
    }
}

pub fn parse_u64(s: &str) -> Option<u64> {
    let s = s.trim();
    if let Some(h) = s.strip_prefix("0x") {
        u64::from_str_radix(h, 16).ok()
    } else {
        s.parse::<u64>()
            .ok()
            .or_else(|| s.parse::<i64>().ok().map(|v| v as u64))
    }
}

pub fn verif_root() -> PathBuf {
    if let Ok(r) = std::env::var("VERIF_ROOT") {
        return PathBuf::from(r);
    }
    PathBuf::from("/verif")
}

// ---------------------------------------------------------------------------------------
// Simulated process = fresh OS thread
// ---------------------------------------------------------------------------------------

/// Run `f` on a fresh OS thread with panic capture. A fresh thread has not yet
/// pulled its hash keys from the entropy seam, so installing an entropy seed as
/// the first thing inside `f` makes the run one repeatable "fresh process".
pub fn fresh_thread<R: Send>(
    stack_bytes: usize,
    f: impl FnOnce() -> R + Send,
) -> Result<R, Vec<PanicInfo>> {
    std::thread::scope(|s| {
        let h = std::thread::Builder::new()
            .stack_size(stack_bytes)
            .spawn_scoped(s, move || {
                panics::begin_capture();
                let r = std::panic::catch_unwind(std::panic::AssertUnwindSafe(f));
                let p = panics::end_capture();
                match r {
                    Ok(v) => Ok(v),
                    Err(_) => Err(p),
                }
            })
            .expect("spawn");
        match h.join() {
            Ok(r) => r,
            Err(_) => Err(vec![PanicInfo {
                message: "thread died outside catch_unwind".into(),
                location: "<unknown>".into(),
            }]),
        }
    })
}

// ---------------------------------------------------------------------------------------
// Parallel batch driver: parallelism over runs, never inside a run; run k's
// seed depends on k only.
// ---------------------------------------------------------------------------------------

pub fn par_fold<A: Send>(
    n: u64,
    workers: usize,
    deadline: Option<Instant>,
    init: impl Fn() -> A + Sync,
    step: impl Fn(&mut A, u64) + Sync,
    mut merge: impl FnMut(&mut A, A),
) -> (A, u64) {
    let next = AtomicU64::new(0);
    let done = AtomicU64::new(0);
    let results: Mutex<Vec<A>> = Mutex::new(Vec::new());
    const CHUNK: u64 = 8;
    std::thread::scope(|s| {
        for _ in 0..workers.max(1) {
            s.spawn(|| {
                let mut acc = init();
                loop {
                    if let Some(d) = deadline {
                        if Instant::now() >= d {
                            break;
                        }
                    }
                    let start = next.fetch_add(CHUNK, Ordering::Relaxed);
                    if start >= n {
                        break;
                    }
                    let end = (start + CHUNK).min(n);
                    for k in start..end {
                        step(&mut acc, k);
                        done.fetch_add(1, Ordering::Relaxed);
                    }
                }
                results.lock().unwrap().push(acc);
            });
        }
    });
    let mut total = init();
    for a in results.into_inner().unwrap() {
        merge(&mut total, a);
    }
    (total, done.load(Ordering::Relaxed))
}

/// `par_fold` over `n` indices, split over child PROCESSES of at most `chunk` indices each
/// when `n > chunk` (one child at a time, each using all workers). Needed where an execution
/// cannot give its memory back: shuttle deliberately leaks the coroutines of tasks that are
/// still in flight when an execution ends by a panic, and every thread-flavour execution
/// ends that way (simulated process exit), ~250 KB each.
/// Returns Ok(None) in a child (accumulator written to --chunk-out; caller exits 0).
pub fn par_fold_chunked<A>(
    cli: &Cli,
    n: u64,
    chunk: u64,
    init: impl Fn() -> A + Sync,
    step: impl Fn(&mut A, u64) + Sync,
    mut merge: impl FnMut(&mut A, A),
) -> Result<Option<A>, String>
where
    A: Send + serde::Serialize + serde::de::DeserializeOwned,
{
    if let (Some(a), Some(b), Some(out)) = (
        cli.opts.get("chunk-from"),
        cli.opts.get("chunk-to"),
        cli.opts.get("chunk-out"),
    ) {
        let a: u64 = a.parse().map_err(|_| "bad --chunk-from".to_string())?;
        let b: u64 = b.parse().map_err(|_| "bad --chunk-to".to_string())?;
        let (acc, _) = par_fold(
            b.saturating_sub(a),
            cli.workers,
            None,
            &init,
            |acc, k| step(acc, a + k),
            &mut merge,
        );
        let bytes = serde_json::to_vec(&acc).map_err(|e| format!("chunk accumulator: {}", e))?;
        std::fs::write(out, bytes).map_err(|e| format!("{}: {}", out, e))?;
        return Ok(None);
    }
    // (thread flavour: always in child processes, so that an execution that ABORTS - a panic inside a destructor while
    // a thread of the simulated process unwinds - takes a child with it and not the check; see `isolate_abort`)
    if n <= chunk && !cfg!(mos_verif_threads) {
        let (acc, _) = par_fold(n, cli.workers, None, &init, &step, &mut merge);
        return Ok(Some(acc));
    }
    let dir = verif_root().join("target").join("chunks");
    std::fs::create_dir_all(&dir).map_err(|e| format!("{}: {}", dir.display(), e))?;
    let mut total = init();
    let mut a = 0u64;
    while a < n {
        let b = (a + chunk).min(n);
        let out = dir.join(format!("{}-{}-{}.json", cli.target, std::process::id(), a));
        let mut cmd = std::process::Command::new(&cli.exe);
        cmd.args(std::env::args().skip(1));
        cmd.arg("--chunk-from")
            .arg(a.to_string())
            .arg("--chunk-to")
            .arg(b.to_string())
            .arg("--chunk-out")
            .arg(&out);
        let st = cmd
            .status()
            .map_err(|e| format!("cannot start chunk process: {}", e))?;
        if !st.success() {
            let _ = std::fs::remove_file(&out);
            {
                use std::os::unix::process::ExitStatusExt;
                if st.signal() == Some(6) {
                    return Err(format!("ABORT {} {}", a, b));
                }
            }
            return Err(format!(
                "chunk process for runs {}..{} ended with {:?}",
                a, b, st
            ));
        }
        let bytes = std::fs::read(&out).map_err(|e| format!("{}: {}", out.display(), e))?;
        let _ = std::fs::remove_file(&out);
        let part: A = serde_json::from_slice(&bytes)
            .map_err(|e| format!("chunk accumulator {}: {}", out.display(), e))?;
        merge(&mut total, part);
        a = b;
    }
    Ok(Some(total))
}

/// Does the chunk process for executions a..b die of SIGABRT?
pub fn chunk_aborts(cli: &Cli, a: u64, b: u64) -> bool {
    use std::os::unix::process::ExitStatusExt;
    let dir = verif_root().join("target").join("chunks");
    let _ = std::fs::create_dir_all(&dir);
    let out = dir.join(format!("{}-{}-probe-{}.json", cli.target, std::process::id(), a));
    let st = std::process::Command::new(&cli.exe)
        .args(std::env::args().skip(1))
        .arg("--chunk-from")
        .arg(a.to_string())
        .arg("--chunk-to")
        .arg(b.to_string())
        .arg("--chunk-out")
        .arg(&out)
        .stderr(std::process::Stdio::null())
        .status();
    let _ = std::fs::remove_file(&out);
    matches!(st, Ok(s) if s.signal() == Some(6))
}

/// An execution in a..b aborts its process. Find the first such execution by bisection on prefixes (every execution is
/// a function of the seed and its index alone, so the probes are exact repetitions).
pub fn isolate_abort(cli: &Cli, a: u64, b: u64) -> Option<u64> {
    let (mut lo, mut hi) = (a, b);
    // invariant: a..hi aborts, a..lo does not
    while hi - lo > 1 {
        let mid = lo + (hi - lo) / 2;
        if chunk_aborts(cli, a, mid) {
            hi = mid;
        } else {
            lo = mid;
        }
    }
    if chunk_aborts(cli, lo, lo + 1) {
        Some(lo)
    } else {
        None
    }
}

/// Replay of an execution that is expected to abort its process: run it in a child (`--inner 1`), report what the
/// child died of and the first panic it announced.
pub fn replay_in_child(cli: &Cli, path: &Path) -> (bool, String) {
    use std::os::unix::process::ExitStatusExt;
    let out = std::process::Command::new(&cli.exe)
        .arg(&cli.target)
        .arg("--replay")
        .arg(path)
        .arg("--inner")
        .arg("1")
        .env("VERIF_ROOT", verif_root())
        .env("VERIF_KEEP_STDERR", "1")
        .env("VERIF_PANIC_ECHO", "1")
        .output();
    match out {
        Ok(o) => {
            let err = String::from_utf8_lossy(&o.stderr);
            let first = err.lines().find(|l| l.starts_with("VERIF-PANIC: ")).unwrap_or("").trim_start_matches("VERIF-PANIC: ").to_string();
            (o.status.signal() == Some(6), first)
        }
        Err(_) => (false, String::new()),
    }
}

impl<'de> serde::Deserialize<'de> for Violation {
    fn deserialize<D: serde::Deserializer<'de>>(d: D) -> Result<Violation, D::Error> {
        #[derive(serde::Deserialize)]
        struct V {
            property: String,
            class: String,
            sig: String,
            message: String,
            run_index: u64,
            replay: Value,
        }
        let v = V::deserialize(d)?;
        let property: &'static str = match v.property.as_str() {
            "C06" => "C06",
            "C10" => "C10",
            "C14" => "C14",
            "C19" => "C19",
            "C20" => "C20",
            _ => Box::leak(v.property.into_boxed_str()),
        };
        Ok(Violation {
            property,
            class: v.class,
            sig: v.sig,
            message: v.message,
            run_index: v.run_index,
            replay: v.replay,
        })
    }
}

// ---------------------------------------------------------------------------------------
// Violations, replay files, known findings
// ---------------------------------------------------------------------------------------

#[derive(Clone, Debug, serde::Serialize)]
pub struct Violation {
    pub property: &'static str,
    /// violation class, e.g. "diverging_diagnostics"
    pub class: String,
    /// stable signature used for de-duplication and the known-findings file
    pub sig: String,
    pub message: String,
    pub run_index: u64,
    /// self-contained replay description (workload, faults, seeds, schedule)
    pub replay: Value,
}

#[derive(Clone, Debug, Default)]
pub struct KnownFindings {
    /// (property, sig, text)
    pub known: Vec<(String, String, String)>,
    pub fixed: Vec<(String, String)>,
}

impl KnownFindings {
    pub fn load() -> KnownFindings {
        let mut k = KnownFindings::default();
        let path = verif_root().join("KNOWN_FINDINGS.txt");
        let text = std::fs::read_to_string(path).unwrap_or_default();
        for line in text.lines() {
            let line = line.trim();
            if let Some(rest) = line.strip_prefix("known:") {
                let rest = rest.trim();
                let mut prop = String::new();
                let mut sig = String::new();
                let mut text = vec![];
                for w in rest.split_whitespace() {
                    if let Some(p) = w.strip_prefix("property=") {
                        if prop.is_empty() {
                            prop = p.to_string();
                            continue;
                        }
                    }
                    if let Some(s) = w.strip_prefix("sig=") {
                        if sig.is_empty() {
                            sig = s.to_string();
                            continue;
                        }
                    }
                    text.push(w);
                }
                k.known.push((prop, sig, text.join(" ")));
            } else if let Some(rest) = line.strip_prefix("fixed:") {
                let rest = rest.trim();
                let prop = rest
                    .split_whitespace()
                    .find_map(|w| w.strip_prefix("property="))
                    .unwrap_or("")
                    .to_string();
                k.fixed.push((prop, rest.to_string()));
            }
        }
        k
    }

    pub fn lookup(&self, prop: &str, sig: &str) -> Option<&str> {
        self.known
            .iter()
            .find(|(p, s, _)| p == prop && s == sig)
            .map(|(_, _, t)| t.as_str())
    }
}

pub fn write_json(path: &Path, v: &Value) -> std::io::Result<()> {
    if let Some(p) = path.parent() {
        std::fs::create_dir_all(p)?;
    }
    let tmp = path.with_extension("json.tmp");
    std::fs::write(&tmp, serde_json::to_string_pretty(v).unwrap() + "\n")?;
    std::fs::rename(tmp, path)
}

pub fn read_json(path: &Path) -> Result<Value, String> {
    let s = std::fs::read_to_string(path).map_err(|e| format!("{}: {}", path.display(), e))?;
    serde_json::from_str(&s).map_err(|e| format!("{}: {}", path.display(), e))
}

/// Outcome of replaying one replay file in this process.
#[derive(Clone, Debug)]
pub struct ReplayResult {
    pub violated: bool,
    pub sig: String,
    pub class: String,
    pub message: String,
    pub log_hash: u64,
}

pub fn print_replay_result(prop: &str, r: &ReplayResult) -> i32 {
    println!(
        "REPLAY property={} violated={} class={} sig={} log_hash={:016x}",
        prop, r.violated, r.class, r.sig, r.log_hash
    );
    if !r.message.is_empty() {
        println!("{}", r.message);
    }
    if r.violated {
        EXIT_VIOLATION
    } else {
        EXIT_OK
    }
}

/// Evidence accumulator. Every count is measured by the batch that ran.
pub struct Evidence {
    pub property: &'static str,
    pub tier: Tier,
    pub seed: u64,
    pub started: Instant,
    pub evaluations: u64,
    pub distinct_nontrivial: u64,
    pub rule: String,
    pub samples: Vec<Value>,
    pub extra: serde_json::Map<String, Value>,
    pub assumptions: Vec<String>,
    pub violations: u64,
}

impl Evidence {
    pub fn new(property: &'static str, cli: &Cli) -> Evidence {
        Evidence {
            property,
            tier: cli.tier,
            seed: cli.seed,
            started: Instant::now(),
            evaluations: 0,
            distinct_nontrivial: 0,
            rule: String::new(),
            samples: vec![],
            extra: serde_json::Map::new(),
            assumptions: vec![],
            violations: 0,
        }
    }

    pub fn set(&mut self, k: &str, v: Value) {
        self.extra.insert(k.to_string(), v);
    }

    pub fn write(&self) -> std::io::Result<PathBuf> {
        let wall = self.started.elapsed().as_secs_f64();
        let mut cov = serde_json::Map::new();
        cov.insert("evaluations".into(), json!(self.evaluations));
        cov.insert(
            "distinct_nontrivial".into(),
            json!(self.distinct_nontrivial),
        );
        cov.insert("rule".into(), json!(self.rule));
        cov.insert("samples".into(), Value::Array(self.samples.clone()));
        cov.insert("exhaustive".into(), json!(false));
        cov.insert(
            "runs_per_hour".into(),
            json!(if wall > 0.0 {
                (self.evaluations as f64 / wall * 3600.0) as u64
            } else {
                0
            }),
        );
        for (k, v) in &self.extra {
            cov.insert(k.clone(), v.clone());
        }
        let v = json!({
            "property_id": self.property,
            "tier": self.tier.name(),
            "seed": self.seed,
            "level": "exploration",
            "coverage": Value::Object(cov),
            "assumptions": self.assumptions,
            "wall_s": (wall * 1000.0).round() / 1000.0,
            "violations": self.violations,
        });
        let path = verif_root()
            .join("evidence")
            .join(format!("{}.json", self.property));
        write_json(&path, &v)?;
        Ok(path)
    }
}

/// Common end of every check: de-duplicate violations by signature, consult the
/// known-findings file, write replay files, verify each replay in a *fresh
/// process*, print the verdict lines and return the exit code.
pub fn conclude(cli: &Cli, ev: &mut Evidence, mut violations: Vec<Violation>) -> i32 {
    let known = KnownFindings::load();
    violations.sort_by(|a, b| (a.sig.as_str(), a.run_index).cmp(&(b.sig.as_str(), b.run_index)));
    let mut seen = BTreeSet::new();
    let mut distinct: Vec<Violation> = vec![];
    for v in violations {
        if seen.insert(v.sig.clone()) {
            distinct.push(v);
        }
    }
    let mut exit = EXIT_OK;
    let mut reported = vec![];
    let mut known_seen = vec![];
    let mut n_new = 0u64;
    for (i, v) in distinct.iter().enumerate() {
        if let Some(text) = known.lookup(v.property, &v.sig) {
            println!(
                "KNOWN-FINDING: property={} sig={} {}",
                v.property, v.sig, text
            );
            known_seen.push(json!({"sig": v.sig, "text": text}));
            continue;
        }
        n_new += 1;
        let path = verif_root()
            .join("replays")
            .join(format!("{}-{:x}-{}.json", v.property, cli.seed, i));
        let mut replay = v.replay.clone();
        if let Value::Object(m) = &mut replay {
            m.insert("property".into(), json!(v.property));
            m.insert(
                "violation".into(),
                json!({"class": v.class, "sig": v.sig, "message": v.message}),
            );
        }
        if let Err(e) = write_json(&path, &replay) {
            eprintln!(
                "harness error: cannot write replay {}: {}",
                path.display(),
                e
            );
            exit = EXIT_HARNESS;
            continue;
        }
        // Replay must reproduce in a fresh process.
        let attempt = |path: &Path| -> bool {
            let out = std::process::Command::new(&cli.exe)
                .arg(&cli.target)
                .arg("--replay")
                .arg(path)
                .env("VERIF_ROOT", verif_root())
                .output();
            match out {
                Ok(o) => {
                    let so = String::from_utf8_lossy(&o.stdout);
                    o.status.code() == Some(EXIT_VIOLATION) && so.contains(&format!("sig={} ", v.sig))
                }
                Err(_) => false,
            }
        };
        let mut ok = attempt(&path);
        if !ok {
            // a replay file that carries a minimised schedule also carries the unminimised execution
            // (workload + seed) it was derived from; fall back on that one rather than lose the verdict
            if let Some(fb) = replay.get("seed_only_fallback").cloned() {
                let mut fb = fb;
                if let Value::Object(m) = &mut fb {
                    m.insert("property".into(), json!(v.property));
                    m.insert(
                        "violation".into(),
                        json!({"class": v.class, "sig": v.sig, "message": v.message, "note": "the schedule-minimised replay did not reproduce in a fresh process; this is the execution as found"}),
                    );
                }
                if write_json(&path, &fb).is_ok() {
                    ok = attempt(&path);
                    if ok {
                        eprintln!("note: schedule-minimised replay of sig={} did not reproduce; seed-only replay written instead", v.sig);
                    }
                }
            }
        }
        if !ok {
            eprintln!(
                "harness error: replay {} does not reproduce sig={} in a fresh process",
                path.display(),
                v.sig
            );
            if exit == EXIT_OK {
                exit = EXIT_HARNESS;
            }
            continue;
        }
        println!("{}", v.message);
        println!(
            "VIOLATION property={} replay={}",
            v.property,
            path.display()
        );
        reported
            .push(json!({"sig": v.sig, "class": v.class, "replay": path.display().to_string()}));
        exit = EXIT_VIOLATION;
    }
    ev.violations = n_new;
    ev.set("known_findings_seen", Value::Array(known_seen));
    ev.set("violations_reported", Value::Array(reported));
    match ev.write() {
        Ok(p) => eprintln!("evidence: {}", p.display()),
        Err(e) => {
            eprintln!("harness error: cannot write evidence: {}", e);
            if exit == EXIT_OK {
                exit = EXIT_HARNESS;
            }
        }
    }
    exit
}

/// delta debugging (ddmin) over a list: returns a 1-minimal sublist for which
/// `test` still returns true. `test(items)` must be deterministic.
pub fn ddmin<T: Clone>(items: Vec<T>, test: &mut dyn FnMut(&[T]) -> bool) -> Vec<T> {
    let mut cur = items;
    let mut n = 2usize;
    while cur.len() >= 2 {
        let len = cur.len();
        let chunk = (len + n - 1) / n;
        let mut reduced = false;
        // try complements
        let mut start = 0;
        while start < len {
            let end = (start + chunk).min(len);
            let mut cand = Vec::with_capacity(len - (end - start));
            cand.extend_from_slice(&cur[..start]);
            cand.extend_from_slice(&cur[end..]);
            if !cand.is_empty() && test(&cand) {
                cur = cand;
                n = (n - 1).max(2);
                reduced = true;
                break;
            }
            start = end;
        }
        if !reduced {
            if n >= len {
                break;
            }
            n = (n * 2).min(len);
        }
    }
    if cur.len() == 1 {
        // try the empty list? callers treat empty as "no workload", skip.
    }
    cur
}

pub fn hex64(v: u64) -> String {
    format!("{:016x}", v)
}

// ---------------------------------------------------------------------------------------
// Supervisor: runs in worker *processes*, because two failure modes of the
// system under test (stack overflow, abort) kill the process they happen in.
// ---------------------------------------------------------------------------------------

/// What a worker reports for one run.
#[derive(Clone, Debug)]
pub struct RunReport {
    pub k: u64,
    pub digest: u64,
    pub trace: u64,
    pub nontrivial: bool,
    /// Some((found json)) when the run ended in a violation
    pub found: Option<Value>,
}

pub enum WorkerLine {
    Run(RunReport),
    Stats(Value),
}

/// Worker side: print one line per run / stats block on stdout.
pub fn worker_emit_run(r: &RunReport) {
    use std::io::Write;
    let out = std::io::stdout();
    let mut o = out.lock();
    let _ = writeln!(
        o,
        "R {} {:016x} {:016x} {}",
        r.k,
        r.digest,
        r.trace,
        if r.nontrivial { 1 } else { 0 }
    );
    if let Some(f) = &r.found {
        let _ = writeln!(o, "F {} {}", r.k, f);
    }
    let _ = o.flush();
}

pub fn worker_emit_stats(v: &Value) {
    use std::io::Write;
    let out = std::io::stdout();
    let mut o = out.lock();
    let _ = writeln!(o, "S {}", v);
    let _ = o.flush();
}

pub fn worker_emit_done() {
    use std::io::Write;
    println!("D");
    let _ = std::io::stdout().flush();
}

#[derive(Default)]
pub struct Supervised {
    pub runs: Vec<RunReport>,
    pub stats: Vec<Value>,
    /// (k, description of how the worker process died)
    pub deaths: Vec<(u64, String)>,
    pub harness_errors: Vec<String>,
}

fn describe_exit(st: &std::process::ExitStatus) -> String {
    use std::os::unix::process::ExitStatusExt;
    if let Some(sig) = st.signal() {
        let name = match sig {
            6 => "SIGABRT",
            11 => "SIGSEGV",
            9 => "SIGKILL",
            4 => "SIGILL",
            7 => "SIGBUS",
            8 => "SIGFPE",
            _ => "signal",
        };
        format!("{}({})", name, sig)
    } else if st.code() == Some(mos_simrt::alloc_seam::EXIT_MEMORY_BUDGET) {
        "memory_budget(the simulated process held more than 3 GiB of live allocations)".to_string()
    } else {
        format!("exit({})", st.code().unwrap_or(-1))
    }
}

/// Is every thread of process `pid` blocked (state S or D ... here: sleeping) and has the process
/// used no CPU since the previous sample? Returns (all_blocked, cpu_ticks).
fn proc_blocked(pid: u32) -> Option<(bool, u64)> {
    let mut all_blocked = true;
    let mut ticks = 0u64;
    let dir = std::fs::read_dir(format!("/proc/{}/task", pid)).ok()?;
    let mut n = 0;
    for e in dir.flatten() {
        let stat = std::fs::read_to_string(e.path().join("stat")).ok()?;
        // fields after the closing paren of comm
        let rest = stat.rsplit_once(')')?.1;
        let f: Vec<&str> = rest.split_whitespace().collect();
        // f[0] = state, f[11] = utime, f[12] = stime
        if f.len() < 13 {
            return None;
        }
        if f[0] != "S" {
            all_blocked = false;
        }
        // blocked on a lock / condition / join (futex), not on I/O that somebody may still serve
        let wchan = std::fs::read_to_string(e.path().join("wchan")).unwrap_or_default();
        if !wchan.contains("futex") {
            all_blocked = false;
        }
        ticks += f[11].parse::<u64>().unwrap_or(0) + f[12].parse::<u64>().unwrap_or(0);
        n += 1;
    }
    if n == 0 {
        return None;
    }
    Some((all_blocked, ticks))
}

/// A worker whose threads are ALL blocked and which burns no CPU over `DEADLOCK_SAMPLES`
/// consecutive samples can never make progress again (nothing outside the process will wake
/// it: stdin is /dev/null, the parent only reads): that is a deadlock of the code under test,
/// a stable fact about the process state, not a wall-clock judgement about slowness.
const DEADLOCK_SAMPLES: u32 = 15; // x 200 ms

/// Parent side: run indices 0..n in worker processes
/// (`exe <target> --mode worker --from a --to b` + the forwarded options).
pub fn supervise(
    cli: &Cli,
    n: u64,
    forward: &[(&str, String)],
    per_run_timeout_s: u64,
) -> Supervised {
    use std::io::{BufRead, BufReader};
    use std::process::{Command, Stdio};
    let chunk = (n / (cli.workers as u64 * 8)).clamp(8, 2000);
    let next = AtomicU64::new(0);
    // a batch that keeps killing its workers has made its point: stop early
    let bad_events = AtomicU64::new(0);
    const MAX_BAD_EVENTS: u64 = 12;
    let result = Mutex::new(Supervised::default());
    std::thread::scope(|s| {
        for _ in 0..cli.workers {
            s.spawn(|| {
                let mut local = Supervised::default();
                loop {
                    let a = next.fetch_add(chunk, Ordering::Relaxed);
                    if a >= n || bad_events.load(Ordering::Relaxed) >= MAX_BAD_EVENTS {
                        break;
                    }
                    let b = (a + chunk).min(n);
                    let mut from = a;
                    while from < b && bad_events.load(Ordering::Relaxed) < MAX_BAD_EVENTS {
                        let mut cmd = Command::new(&cli.exe);
                        cmd.arg(&cli.target)
                            .arg("--mode")
                            .arg("worker")
                            .arg("--from")
                            .arg(from.to_string())
                            .arg("--to")
                            .arg(b.to_string())
                            .arg("--seed")
                            .arg(cli.seed.to_string())
                            .arg("--tier")
                            .arg(cli.tier.name())
                            .env("VERIF_ROOT", verif_root())
                            .stdin(Stdio::null())
                            .stdout(Stdio::piped())
                            .stderr(Stdio::null());
                        for (k, v) in forward {
                            cmd.arg(format!("--{}", k)).arg(v);
                        }
                        let mut child = match cmd.spawn() {
                            Ok(c) => c,
                            Err(e) => {
                                local.harness_errors.push(format!("cannot spawn worker: {}", e));
                                from = b;
                                break;
                            }
                        };
                        let pid = child.id();
                        let stdout = child.stdout.take().unwrap();
                        // watchdog: kill the worker when no line arrives for too long
                        let last = std::sync::Arc::new(AtomicU64::new(0));
                        let finished = std::sync::Arc::new(std::sync::atomic::AtomicBool::new(false));
                        let (l2, f2) = (last.clone(), finished.clone());
                        let t0 = Instant::now();
                        let wd = std::thread::spawn(move || {
                            let mut blocked_samples = 0u32;
                            let mut last_ticks = u64::MAX;
                            while !f2.load(Ordering::Relaxed) {
                                std::thread::sleep(std::time::Duration::from_millis(200));
                                let idle = t0.elapsed().as_secs().saturating_sub(l2.load(Ordering::Relaxed));
                                let kill_it = || unsafe {
                                    extern "C" {
                                        fn kill(pid: i32, sig: i32) -> i32;
                                    }
                                    kill(pid as i32, 9);
                                };
                                match proc_blocked(pid) {
                                    Some((true, ticks)) if ticks == last_ticks => blocked_samples += 1,
                                    Some((_, ticks)) => {
                                        blocked_samples = 0;
                                        last_ticks = ticks;
                                    }
                                    None => blocked_samples = 0,
                                }
                                if blocked_samples >= DEADLOCK_SAMPLES {
                                    kill_it();
                                    return 2u8;
                                }
                                if idle > per_run_timeout_s {
                                    kill_it();
                                    return 1u8;
                                }
                            }
                            0u8
                        });
                        let mut done = false;
                        let mut next_k = from;
                        for line in BufReader::new(stdout).lines() {
                            let line = match line {
                                Ok(l) => l,
                                Err(_) => break,
                            };
                            last.store(t0.elapsed().as_secs(), Ordering::Relaxed);
                            if let Some(rest) = line.strip_prefix("R ") {
                                let p: Vec<&str> = rest.split(' ').collect();
                                if p.len() == 4 {
                                    let k = p[0].parse::<u64>().unwrap_or(0);
                                    local.runs.push(RunReport {
                                        k,
                                        digest: u64::from_str_radix(p[1], 16).unwrap_or(0),
                                        trace: u64::from_str_radix(p[2], 16).unwrap_or(0),
                                        nontrivial: p[3] == "1",
                                        found: None,
                                    });
                                    next_k = k + 1;
                                }
                            } else if let Some(rest) = line.strip_prefix("F ") {
                                if let Some((k, js)) = rest.split_once(' ') {
                                    let k = k.parse::<u64>().unwrap_or(0);
                                    if let Ok(v) = serde_json::from_str::<Value>(js) {
                                        if let Some(r) = local.runs.iter_mut().rev().find(|r| r.k == k) {
                                            r.found = Some(v);
                                        }
                                    }
                                }
                            } else if let Some(rest) = line.strip_prefix("S ") {
                                if let Ok(v) = serde_json::from_str::<Value>(rest) {
                                    local.stats.push(v);
                                }
                            } else if line == "D" {
                                done = true;
                            }
                        }
                        let status = child.wait();
                        finished.store(true, Ordering::Relaxed);
                        let wd_verdict = wd.join().unwrap_or(0);
                        let timed_out = wd_verdict == 1;
                        if done {
                            from = b;
                        } else if wd_verdict == 2 {
                            bad_events.fetch_add(1, Ordering::Relaxed);
                            local.deaths.push((next_k, "deadlock(all threads blocked, no CPU used)".to_string()));
                            from = next_k + 1;
                        } else if timed_out {
                            bad_events.fetch_add(1, Ordering::Relaxed);
                            local.harness_errors.push(format!(
                                "worker watchdog: run {} produced no result within {} s (wall clock is never a verdict)",
                                next_k, per_run_timeout_s
                            ));
                            from = next_k + 1;
                        } else {
                            let how = status.map(|s| describe_exit(&s)).unwrap_or_else(|e| e.to_string());
                            bad_events.fetch_add(1, Ordering::Relaxed);
                            local.deaths.push((next_k, how));
                            from = next_k + 1;
                        }
                    }
                }
                let mut r = result.lock().unwrap();
                r.runs.extend(local.runs);
                r.stats.extend(local.stats);
                r.deaths.extend(local.deaths);
                r.harness_errors.extend(local.harness_errors);
            });
        }
    });
    let mut r = result.into_inner().unwrap();
    r.runs.sort_by_key(|x| x.k);
    r.deaths.sort();
    r
}

/// Run one case file in a child process (`exe <target> --mode one --case FILE`).
/// Returns Ok(Some(found json)) / Ok(None) / Err(description of process death).
pub fn run_isolated(cli: &Cli, case: &Value, timeout_s: u64) -> Result<Option<Value>, String> {
    use std::process::{Command, Stdio};
    static N: AtomicU64 = AtomicU64::new(0);
    let dir = verif_root().join("target").join("cases");
    let _ = std::fs::create_dir_all(&dir);
    let path = dir.join(format!(
        "case-{}-{}.json",
        std::process::id(),
        N.fetch_add(1, Ordering::Relaxed)
    ));
    if std::fs::write(&path, case.to_string()).is_err() {
        return Err("cannot write case file".into());
    }
    let child = Command::new(&cli.exe)
        .arg(&cli.target)
        .arg("--mode")
        .arg("one")
        .arg("--case")
        .arg(&path)
        .env("VERIF_ROOT", verif_root())
        .stdin(Stdio::null())
        .stdout(Stdio::piped())
        .stderr(Stdio::null())
        .spawn();
    let mut child = match child {
        Ok(c) => c,
        Err(e) => return Err(format!("spawn failed: {}", e)),
    };
    let t0 = Instant::now();
    let reader = child.stdout.take().map(|mut so| {
        std::thread::spawn(move || {
            use std::io::Read;
            let mut out = String::new();
            let _ = so.read_to_string(&mut out);
            out
        })
    });
    let mut blocked_samples = 0u32;
    let mut last_ticks = u64::MAX;
    let mut polls = 0u32;
    let status = loop {
        match child.try_wait() {
            Ok(Some(s)) => break s,
            Ok(None) => {
                polls += 1;
                if polls % 100 == 0 {
                    match proc_blocked(child.id()) {
                        Some((true, ticks)) if ticks == last_ticks => blocked_samples += 1,
                        Some((_, ticks)) => {
                            blocked_samples = 0;
                            last_ticks = ticks;
                        }
                        None => blocked_samples = 0,
                    }
                    if blocked_samples >= DEADLOCK_SAMPLES {
                        let _ = child.kill();
                        let _ = child.wait();
                        let _ = std::fs::remove_file(&path);
                        return Err("deadlock(all threads blocked, no CPU used)".into());
                    }
                }
                if t0.elapsed().as_secs() > timeout_s {
                    let _ = child.kill();
                    let _ = child.wait();
                    let _ = std::fs::remove_file(&path);
                    return Err("watchdog timeout".into());
                }
                std::thread::sleep(std::time::Duration::from_millis(2));
            }
            Err(e) => return Err(e.to_string()),
        }
    };
    let out = reader.and_then(|r| r.join().ok()).unwrap_or_default();
    let _ = std::fs::remove_file(&path);
    let mut found = None;
    let mut done = false;
    for line in out.lines() {
        if let Some(rest) = line.strip_prefix("F ") {
            if let Some((_, js)) = rest.split_once(' ') {
                found = serde_json::from_str::<Value>(js).ok();
            }
        } else if line == "D" {
            done = true;
        }
    }
    if !done {
        return Err(describe_exit(&status));
    }
    Ok(found)
}
