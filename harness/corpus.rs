//! Workload: projects (a set of source files + mos.toml) taken from the
//! repository's examples and from small seeded generators. File contents are
//! *workload*, not a searched space (see DESIGN.md section 1.2).

use mos_simrt::rng::Rng;
use serde_json::{json, Value};
use std::collections::BTreeMap;

pub const WS: &str = "/ws";

#[derive(Clone, Debug, PartialEq, Eq)]
pub struct Project {
    /// path relative to the workspace root -> contents
    pub files: BTreeMap<String, Vec<u8>>,
    pub toml: String,
    pub label: String,
}

impl Project {
    pub fn new(label: &str) -> Project {
        Project {
            files: BTreeMap::new(),
            toml: String::new(),
            label: label.to_string(),
        }
    }
    pub fn file(mut self, name: &str, text: &str) -> Project {
        self.files
            .insert(name.to_string(), text.as_bytes().to_vec());
        self
    }
    pub fn with_toml(mut self, t: &str) -> Project {
        self.toml = t.to_string();
        self
    }
    pub fn to_json(&self) -> Value {
        let mut m = serde_json::Map::new();
        for (k, v) in &self.files {
            m.insert(
                k.clone(),
                match std::str::from_utf8(v) {
                    Ok(s) => json!(s),
                    Err(_) => json!({ "bytes": v }),
                },
            );
        }
        json!({"label": self.label, "toml": self.toml, "files": Value::Object(m)})
    }
    pub fn from_json(v: &Value) -> Option<Project> {
        let mut p = Project::new(v.get("label")?.as_str()?);
        p.toml = v.get("toml")?.as_str()?.to_string();
        for (k, f) in v.get("files")?.as_object()? {
            let bytes = match f {
                Value::String(s) => s.as_bytes().to_vec(),
                Value::Object(o) => o
                    .get("bytes")?
                    .as_array()?
                    .iter()
                    .map(|b| b.as_u64().unwrap_or(0) as u8)
                    .collect(),
                _ => return None,
            };
            p.files.insert(k.clone(), bytes);
        }
        Some(p)
    }
    pub fn disk(&self) -> mos_simrt::disk::SimDisk {
        self.disk_at(std::path::Path::new(WS))
    }

    /// the project in a directory of any name (also one that is not valid UTF-8)
    pub fn disk_at(&self, root: &std::path::Path) -> mos_simrt::disk::SimDisk {
        let mut d = mos_simrt::disk::SimDisk::new();
        d.add_dir(root);
        if !self.toml.is_empty() {
            d.add_file(root.join("mos.toml"), self.toml.as_bytes().to_vec());
        }
        for (k, v) in &self.files {
            d.add_file(root.join(k), v.clone());
        }
        d
    }
}

pub fn example_projects() -> Vec<Project> {
    let shared = include_str!("../corpus/examples/c64_shared/c64.asm");
    vec![
        Project::new("example:atari800_colors")
            .file(
                "main.asm",
                include_str!("../corpus/examples/atari800_colors/main.asm"),
            )
            .file(
                "atari800.asm",
                include_str!("../corpus/examples/atari800_colors/atari800.asm"),
            )
            .with_toml("[build]\nentry = \"main.asm\"\nlisting = true\nsymbols = [\"vice\"]\n"),
        Project::new("example:c64_cartridge")
            .file(
                "cart/main.asm",
                include_str!("../corpus/examples/c64_cartridge/main.asm"),
            )
            .file("shared/c64.asm", shared)
            .with_toml("[build]\nentry = \"cart/main.asm\"\noutput-format = \"bin\"\noutput-filename = \"cart.crt\"\nlisting = true\nsymbols = [\"vice\"]\n"),
        Project::new("example:c64_scroller")
            .file(
                "scroller/main.asm",
                include_str!("../corpus/examples/c64_scroller/main.asm"),
            )
            .file("shared/c64.asm", shared)
            .with_toml("[build]\nentry = \"scroller/main.asm\"\nlisting = true\noutput-format = \"prg\"\nsymbols = [\"vice\"]\n"),
        Project::new("example:c64_unit-testing")
            .file(
                "main.asm",
                include_str!("../corpus/examples/c64_unit-testing/main.asm"),
            )
            .with_toml("[build]\nentry = \"main.asm\"\nlisting = true\nsymbols = [\"vice\"]\n"),
    ]
}

fn toml_for(rng: &mut Rng) -> String {
    let mut t = String::from("[build]\nentry = \"main.asm\"\n");
    if rng.chance(3, 4) {
        t.push_str("listing = true\n");
    }
    if rng.chance(3, 4) {
        t.push_str("symbols = [\"vice\"]\n");
    }
    match rng.below(4) {
        0 => t.push_str("output-format = \"bin\"\n"),
        1 => t.push_str("output-format = \"prg\"\n"),
        _ => {}
    }
    t
}

const NAMES: &[&str] = &[
    "alpha", "beta", "gamma", "delta", "eps", "zeta", "eta", "theta", "iota", "kappa", "lambda",
    "mu", "nu", "xi", "omi", "pi", "rho", "sigma", "tau", "ups",
];

fn lib_body(rng: &mut Rng, prefix: &str, n_syms: usize) -> (String, Vec<String>) {
    let mut s = String::new();
    let mut syms = vec![];
    for i in 0..n_syms {
        let name = format!("{}_{}", prefix, NAMES[(i + rng.below(3)) % NAMES.len()]);
        if syms.contains(&name) {
            continue;
        }
        match rng.below(4) {
            0 => s.push_str(&format!(
                ".const {} = ${:04x}\n",
                name,
                0x400 + rng.below(0x4000)
            )),
            1 => s.push_str(&format!(
                "{}: {{\n    lda #{}\n    sta $d020\n    rts\n}}\n",
                name,
                rng.below(256)
            )),
            2 => s.push_str(&format!(
                "{}:\n    .byte {}, {}, {}\n",
                name,
                rng.below(256),
                rng.below(256),
                rng.below(256)
            )),
            _ => s.push_str(&format!(
                "{}:\n    ldx #{}\n    {{\n        dex\n        bne -\n    }}\n    rts\n",
                name,
                1 + rng.below(40)
            )),
        }
        syms.push(name);
    }
    // data whose bytes are computed: text in the three encodings (upper case, mixed case, punctuation and
    // graphics characters), expressions, alignment, loops, conditionals
    if rng.chance(1, 2) {
        const DATA: &[&str] = &[
            "    .text \"Hello World\"\n",
            "    .text ascii \"MiXeD Case 123 !?\"\n",
            "    .text petscii \"HELLO WORLD\"\n",
            "    .text petscii \"hello World, ABC xyz\"\n",
            "    .text petscii \"\u{00a3}\u{2191}\u{2190}\u{2500}\u{2502}\u{03c0}\"\n",
            "    .text petscreen \"HELLO World @[]\"\n",
            "    .text petscreen \"\u{2660}\u{2665}\u{2666}\u{2663}\"\n",
            "    .byte <$1234, >$1234, 1 + 2 * 3, 255 & 15, 1 << 4\n",
            "    .word $1234 + 1, 65535\n    .dword $12345678\n",
            "    .align 16\n    .byte 1\n    .align 4\n",
            "    .loop 3 {\n        .byte index * 2\n        .word index\n    }\n",
            "    .if 1 { nop } else { brk }\n    .if 0 { brk } else { nop\n    nop }\n",
        ];
        for _ in 0..rng.range(1, 3) {
            s.push_str(&format!("{}_data{}:\n", prefix, rng.below(1000)));
            s.push_str(*rng.pick(DATA));
        }
    }
    (s, syms)
}

/// Generator aimed at the hash-order sources (N4): several imports per file,
/// diamonds, the same file imported twice with parameter blocks, repeated
/// occurrences of the same undefined name in several files, several imported
/// files each with a parse error, missing files.
pub fn gen_hash_project(rng: &mut Rng, k: u64) -> Project {
    let kind = rng.weighted(&[5, 6, 4, 3, 3, 3, 2, 3, 3]);
    let mut p = Project::new("");
    p.toml = toml_for(rng);
    let n_libs = rng.range(2, 4);
    let mut main = String::new();
    let mut lib_syms: Vec<Vec<String>> = vec![];
    let mut lib_texts: Vec<String> = vec![];
    for i in 0..n_libs {
        let n_syms = rng.range(2, 5);
        let (body, syms) = lib_body(rng, &format!("l{}", i), n_syms);
        lib_texts.push(body);
        lib_syms.push(syms);
    }
    let uses = |rng: &mut Rng, syms: &[String]| -> String {
        let mut s = String::new();
        for name in syms {
            match rng.below(3) {
                0 => s.push_str(&format!("    lda {}\n", name)),
                1 => s.push_str(&format!("    jsr {}\n", name)),
                _ => s.push_str(&format!("    .word {}\n", name)),
            }
        }
        s
    };
    match kind {
        // valid, multi-file, sometimes a diamond
        0 => {
            p.label = format!("gen{}:valid", k);
            main.push_str("start:\n");
            for i in 0..n_libs {
                main.push_str(&uses(rng, &lib_syms[i]));
            }
            main.push_str("    rts\n");
            for i in 0..n_libs {
                main.push_str(&format!(".import * from \"lib{}.asm\"\n", i));
            }
            if rng.chance(1, 2) {
                // labels sharing one address (stacked), nested scopes with equal names, a test, conditional code
                main.push_str("stacked_a:\nstacked_b:\nstacked_c: nop\nouter: {\n    same: nop\n    inner: {\n        same: nop\n    }\n}\n");
                main.push_str(".const FLAG = 1\n.if defined(FLAG) {\n    in_if: nop\n} else {\n    in_else: brk\n}\n");
                main.push_str(
                    ".test \"t1\" {\n    t_label: lda #1\n    .assert cpu.a == 1\n    brk\n}\n",
                );
            }
            if rng.chance(1, 2) {
                // the same library once more, under a namespace
                main.push_str(".import * as ns from \"lib0.asm\"\n");
                main.push_str(".import * as ns2 from \"lib1.asm\"\n");
            }
            if rng.chance(1, 2) {
                // diamond: two libs import a common file under different names
                p.files.insert(
                    "common.asm".into(),
                    b"common_value: .byte 1, 2, 3\n.const COMMON_K = 7\n".to_vec(),
                );
                lib_texts[0].push_str(".import common_value as cv0 from \"common.asm\"\n");
                lib_texts[1].push_str(".import COMMON_K as ck1 from \"common.asm\"\n");
            }
        }
        // the same undefined name(s) used at several places in several files
        1 => {
            p.label = format!("gen{}:undefined", k);
            let n_undef = rng.range(1, 3);
            let undef: Vec<String> = (0..n_undef)
                .map(|i| format!("missing_{}", NAMES[i]))
                .collect();
            main.push_str("start:\n");
            for _ in 0..rng.range(2, 6) {
                let u = rng.pick(&undef).clone();
                match rng.below(3) {
                    0 => main.push_str(&format!("    lda {}\n", u)),
                    1 => main.push_str(&format!("    jsr {}\n", u)),
                    _ => main.push_str(&format!("    .byte <{}, >{}\n", u, u)),
                }
            }
            main.push_str("    rts\n");
            for i in 0..n_libs {
                main.push_str(&format!(".import * from \"lib{}.asm\"\n", i));
                if rng.chance(2, 3) {
                    for _ in 0..rng.range(1, 3) {
                        let u = rng.pick(&undef).clone();
                        lib_texts[i].push_str(&format!("    lda {}\n", u));
                    }
                }
            }
        }
        // several imported files each containing a parse error
        2 => {
            p.label = format!("gen{}:parse_errors", k);
            main.push_str("start:\n    rts\n");
            for i in 0..n_libs {
                main.push_str(&format!(".import * from \"lib{}.asm\"\n", i));
                let bad = [
                    "    lda #\n",
                    "    .byte ,\n",
                    "    sta (\n",
                    "foo bar baz\n",
                    ".const = 3\n",
                ];
                {
                    let b: &str = *rng.pick(&bad[..]);
                    lib_texts[i].push_str(b);
                }
                if rng.chance(1, 2) {
                    {
                        let b: &str = *rng.pick(&bad[..]);
                        lib_texts[i].push_str(b);
                    }
                }
            }
        }
        // missing import targets in several files
        3 => {
            p.label = format!("gen{}:missing_files", k);
            main.push_str("start:\n    rts\n");
            for i in 0..n_libs {
                main.push_str(&format!(".import * from \"lib{}.asm\"\n", i));
                lib_texts[i].push_str(&format!(".import * from \"nowhere{}.asm\"\n", i));
                if rng.chance(1, 2) {
                    lib_texts[i].push_str(&format!(".import * from \"nowhere{}b.asm\"\n", i));
                }
            }
            if rng.chance(1, 2) {
                main.push_str(".import * from \"also_missing.asm\"\n");
                main.push_str(".import * from \"also_missing2.asm\"\n");
            }
        }
        // semantic errors spread over files: undefined macro + symbol on one line, redefinitions
        4 => {
            p.label = format!("gen{}:semantic_errors", k);
            main.push_str("start:\n    no_such_macro(no_such_symbol)\n    lda no_such_symbol\n    lda other_missing\n    rts\n");
            for i in 0..n_libs {
                main.push_str(&format!(".import * from \"lib{}.asm\"\n", i));
                if rng.chance(1, 2) {
                    if let Some(s) = lib_syms[i].first() {
                        lib_texts[i].push_str(&format!(".const {} = 1\n", s));
                    }
                }
                if rng.chance(1, 2) {
                    lib_texts[i].push_str("    lda no_such_symbol\n    ldx other_missing\n");
                }
            }
        }
        // banks and segments, the same file imported twice with parameter blocks
        5 => {
            p.label = format!("gen{}:banks_segments", k);
            // several banks cannot be written as a .prg
            p.toml = p.toml.replace("output-format = \"prg\"\n", "");
            // sometimes the banks go to their own files (two banks may share one file)
            let (f1, f2) = match rng.below(6) {
                0 => (
                    "    filename = \"hdr.bin\"\n",
                    "    filename = \"main.bin\"\n",
                ),
                1 => (
                    "    filename = \"both.bin\"\n",
                    "    filename = \"both.bin\"\n",
                ),
                // the sub directory does not exist: both files fail to be created
                2 => (
                    "    filename = \"roms/hdr.bin\"\n",
                    "    filename = \"roms/main.bin\"\n",
                ),
                3 => (
                    "    filename = \"hdr.bin\"\n",
                    "    filename = \"roms/main.bin\"\n",
                ),
                _ => ("", ""),
            };
            main.push_str(&format!(".define bank {{\n    name = \"hdr\"\n    size = 16\n    fill = 0\n    create-segment = true\n{}}}\n.define bank {{\n    name = \"main\"\n{}}}\n", f1, f2));
            // (in either order: a bank's buffer grows upwards or downwards; the gap between the two is the bank's to fill)
            if rng.chance(1, 2) {
                main.push_str(".define segment {\n    name = \"code\"\n    start = $c000\n    bank = \"main\"\n}\n.define segment {\n    name = \"data\"\n    start = $c800\n    bank = \"main\"\n}\n");
            } else {
                main.push_str(".define segment {\n    name = \"data\"\n    start = $c800\n    bank = \"main\"\n}\n.define segment {\n    name = \"code\"\n    start = $c000\n    bank = \"main\"\n}\n");
            }
            main.push_str(".segment \"hdr\" {\n    .text \"HDR\"\n    .byte 1, 2\n}\n");
            main.push_str(".segment \"code\" {\nstart:\n    jsr set_a\n    jsr set_b\n    lda table\n    rts\n");
            main.push_str(".import set_it as set_a from \"param.asm\" {\n    .const ADDRESS = $d020\n}\n.import set_it as set_b from \"param.asm\" {\n    .const ADDRESS = $d021\n}\n}\n");
            main.push_str(".segment \"data\" {\ntable:\n    .byte 1, 2, 3, 4\n");
            for i in 0..n_libs {
                main.push_str(&format!(".import * from \"lib{}.asm\"\n", i));
            }
            main.push_str("}\n");
            p.files.insert(
                "param.asm".into(),
                b"set_it:\n    lda #1\n    sta ADDRESS\n    rts\n".to_vec(),
            );
            if rng.chance(1, 3) {
                main.push_str("    lda undefined_in_banks\n    lda undefined_in_banks\n");
            }
        }
        // the same library imported twice with a wildcard: every one of its symbols clashes, which one is reported?
        7 => {
            p.label = format!("gen{}:duplicate_imports", k);
            main.push_str("start:\n    rts\n");
            let dup = rng.below(n_libs);
            for i in 0..n_libs {
                main.push_str(&format!(".import * from \"lib{}.asm\"\n", i));
            }
            main.push_str(&format!(".import * from \"lib{}.asm\"\n", dup));
            if rng.chance(1, 2) {
                let other = (dup + 1) % n_libs;
                lib_texts[other].push_str(&format!(".import * from \"lib{}.asm\"\n", dup));
            }
        }
        // passes that never settle: segments (generated, span-less symbols) and forward labels whose
        // values depend on each other and flip in every pass; which of them does the bail-out report?
        8 => {
            p.label = format!("gen{}:unsettled", k);
            p.toml = p.toml.replace("output-format = \"prg\"\n", "");
            let n_seg = rng.range(2, 4);
            let names: Vec<String> = (0..n_seg)
                .map(|i| format!("s{}", NAMES[i % NAMES.len()]))
                .collect();
            let chained = rng.chance(1, 3);
            for (i, n) in names.iter().enumerate() {
                if chained && i > 0 {
                    main.push_str(&format!(
                        ".define segment {{\n    name = \"{}\"\n    start = segments.{}.end\n}}\n",
                        n,
                        names[i - 1]
                    ));
                } else {
                    main.push_str(&format!(
                        ".define segment {{\n    name = \"{}\"\n    start = ${:x}\n}}\n",
                        n,
                        0x1000 * (i + 1)
                    ));
                }
            }
            // how many of the segments take part in the dependency ring (>= 2 unless a label oscillates instead)
            let ring = rng.range(2, n_seg);
            for (i, n) in names.iter().enumerate() {
                main.push_str(&format!(".segment \"{}\" {{\n", n));
                if i < ring {
                    let other = &names[(i + 1) % ring];
                    let base = if chained {
                        0x1000
                    } else {
                        0x1000 * (((i + 1) % ring) + 1)
                    };
                    main.push_str(&format!(
                        "    .if segments.{}.end > ${:x} {{ nop }} else {{ nop\n    nop }}\n",
                        other,
                        base + 1
                    ));
                } else {
                    main.push_str("    nop\n");
                }
                if rng.chance(1, 3) {
                    // a forward label that flips as well (has a span)
                    main.push_str(&format!("    .if later_{} > ${:x} {{ nop }} else {{ nop\n    nop }}\nlater_{}: rts\n", i, 0x1000 * (i + 1) + 2, i));
                }
                main.push_str("}\n");
            }
            // everything else lives in a segment of its own, outside the ring
            main.push_str(".define segment {\n    name = \"rest\"\n    start = $9000\n}\n.segment \"rest\" {\n");
            if rng.chance(1, 3) {
                main.push_str("    lda truly_missing\n    lda truly_missing\n");
            }
            for l in 0..n_libs {
                main.push_str(&format!(".import * from \"lib{}.asm\"\n", l));
            }
            main.push_str("}\n");
        }
        // macros across files + loops, with several uses of an undefined name inside macro expansions
        _ => {
            p.label = format!("gen{}:macros", k);
            main.push_str(".import * from \"macros.asm\"\nstart:\n");
            for i in 0..rng.range(2, 5) {
                main.push_str(&format!("    put({}, $d020 + {})\n", i, i));
            }
            let broken = rng.chance(1, 2);
            if broken {
                main.push_str(
                    "    put(ghost, 1)\n    put(ghost, ghost2)\n    put(ghost2, ghost)\n",
                );
            }
            main.push_str(".loop 3 {\n    lda #index\n    sta $0400 + index\n}\n    rts\n");
            for i in 0..n_libs {
                main.push_str(&format!(".import * from \"lib{}.asm\"\n", i));
                if broken && rng.chance(1, 2) {
                    lib_texts[i].push_str("    lda ghost\n    lda ghost2\n");
                }
            }
            p.files.insert(
                "macros.asm".into(),
                b".macro put(value, addr) {\n    lda #value\n    sta addr\n}\n".to_vec(),
            );
        }
    }
    // one project in twelve has two files whose names differ by letter case only, and imports neither by its exact
    // name (a project that came from a case-insensitive file system): whatever picks "the" file must not pick by
    // the order in which a directory happens to list its entries
    if rng.chance(1, 12) {
        p.label.push_str("+case_twins");
        p.files.insert("palette.asm".into(), b"pal_set:\n    lda #1\n    sta $d020\n    rts\n".to_vec());
        p.files.insert("Palette.asm".into(), b"pal_set:\n    lda #2\n    sta $d020\n    rts\n".to_vec());
        main.push_str(".import pal_set from \"PALETTE.asm\"\n");
    }
    // one project in three keeps its libraries in directories of their own under ONE file name
    // (gfx/util.asm, sound/util.asm ...): everything that is keyed or named by file stem collides
    if rng.chance(1, 3) {
        let n = lib_texts.len();
        for i in 0..n {
            main = main.replace(&format!("\"lib{}.asm\"", i), &format!("\"d{}/lib.asm\"", i));
        }
        for t in lib_texts.iter_mut() {
            for j in 0..n {
                *t = t.replace(
                    &format!("\"lib{}.asm\"", j),
                    &format!("\"../d{}/lib.asm\"", j),
                );
            }
            *t = t.replace("\"common.asm\"", "\"../common.asm\"");
        }
        p.label.push_str("+same_stems");
        p.files.insert("main.asm".into(), main.into_bytes());
        for (i, t) in lib_texts.into_iter().enumerate() {
            p.files.insert(format!("d{}/lib.asm", i), t.into_bytes());
        }
        return p;
    }
    p.files.insert("main.asm".into(), main.into_bytes());
    for (i, t) in lib_texts.into_iter().enumerate() {
        p.files.insert(format!("lib{}.asm", i), t.into_bytes());
    }
    p
}
