//! Simulated clients: an LSP client on the simulated stdio pipes and a DAP
//! client on the simulated TCP socket. Both are ordinary tasks of the
//! execution; everything they observe is recorded in the history with a global
//! event sequence number.

use super::hist;
use mos_simrt::chan::{self, Receiver, RecvTimeoutError};
use mos_simrt::net::TcpStream;
use mos_simrt::pipe::{ClientReader, ClientWriter};
use mos_simrt::shuttle;
use mos_simrt::{clock, net};
use serde_json::{json, Value};
use std::collections::VecDeque;
use std::io::{BufRead, BufReader, Read, Write};
use std::time::Duration;

pub fn read_frame(r: &mut dyn BufRead) -> std::io::Result<Option<Value>> {
    let mut size: Option<usize> = None;
    let mut line = String::new();
    loop {
        line.clear();
        if r.read_line(&mut line)? == 0 {
            return Ok(None);
        }
        let l = line.trim_end_matches("\r\n");
        if l.is_empty() {
            break;
        }
        if let Some(v) = l.strip_prefix("Content-Length: ") {
            size = v.trim().parse().ok();
        }
    }
    let size = match size {
        Some(s) => s,
        None => {
            return Err(std::io::Error::new(
                std::io::ErrorKind::InvalidData,
                "no Content-Length",
            ))
        }
    };
    let mut buf = vec![0u8; size];
    r.read_exact(&mut buf)?;
    serde_json::from_slice(&buf)
        .map(Some)
        .map_err(|e| std::io::Error::new(std::io::ErrorKind::InvalidData, e))
}

pub fn write_frame(w: &mut dyn Write, v: &Value) -> std::io::Result<()> {
    let body = v.to_string();
    write!(w, "Content-Length: {}\r\n\r\n", body.len())?;
    w.write_all(body.as_bytes())?;
    w.flush()
}

#[derive(Debug, Clone, PartialEq)]
pub enum ClientErr {
    Timeout,
    Closed,
    Io(String),
}

// ---------------------------------------------------------------------------------------
// DAP
// ---------------------------------------------------------------------------------------

pub struct DapClient {
    stream: TcpStream,
    rx: Receiver<Value>,
    seq: usize,
    pub pending_events: VecDeque<Value>,
    pub timeout: Duration,
    pub dead: bool,
    /// while set the reader sub-task reads nothing: the client's receive buffer fills up
    deaf: std::sync::Arc<std::sync::atomic::AtomicBool>,
}

impl DapClient {
    /// Connect to the debug adapter port, retrying while the listener is not bound yet.
    pub fn connect(port: u16, tries: usize) -> Option<DapClient> {
        for _ in 0..tries {
            match net::connect(port) {
                Ok(stream) => {
                    let (tx, rx) = chan::unbounded::<Value>();
                    let rs = stream.clone();
                    let deaf = std::sync::Arc::new(std::sync::atomic::AtomicBool::new(false));
                    let deaf2 = deaf.clone();
                    // reader sub-task: frames -> channel
                    let _ = shuttle::thread::Builder::new()
                        .name("dap-client-reader".into())
                        .spawn(move || {
                            let mut br = BufReader::new(rs);
                            loop {
                                while deaf2.load(std::sync::atomic::Ordering::SeqCst) {
                                    clock::sleep(Duration::from_millis(20));
                                }
                                let v = match read_frame(&mut br) {
                                    Ok(Some(v)) => v,
                                    _ => break,
                                };
                                if tx.send(v).is_err() {
                                    break;
                                }
                            }
                        });
                    hist("dap", "connected", json!({ "port": port }));
                    return Some(DapClient {
                        stream,
                        rx,
                        seq: 0,
                        pending_events: VecDeque::new(),
                        timeout: Duration::from_secs(20),
                        dead: false,
                        deaf,
                    });
                }
                Err(_) => clock::sleep(Duration::from_millis(10)),
            }
        }
        hist("dap", "connect_failed", json!({ "port": port }));
        None
    }

    fn note_incoming(&mut self, v: &Value) {
        let ty = v.get("type").and_then(|t| t.as_str()).unwrap_or("");
        if ty == "event" {
            hist("dap", "event", v.clone());
        } else {
            hist("dap", "response", v.clone());
        }
    }

    /// Send a request and wait for its response; events that arrive first are queued.
    pub fn request(&mut self, command: &str, arguments: Value) -> Result<Value, ClientErr> {
        self.send_only(command, arguments)?;
        let seq = self.seq;
        loop {
            match self.rx.recv_timeout(self.timeout) {
                Ok(v) => {
                    self.note_incoming(&v);
                    if v.get("type").and_then(|t| t.as_str()) == Some("response")
                        && v.get("request_seq").and_then(|s| s.as_u64()) == Some(seq as u64)
                    {
                        return Ok(v);
                    }
                    if v.get("type").and_then(|t| t.as_str()) == Some("event") {
                        self.pending_events.push_back(v);
                    }
                }
                Err(RecvTimeoutError::Timeout) => {
                    hist("dap", "timeout", json!({ "command": command, "seq": seq }));
                    self.dead = true;
                    return Err(ClientErr::Timeout);
                }
                Err(RecvTimeoutError::Disconnected) => {
                    hist("dap", "closed_by_server", json!({ "command": command }));
                    self.dead = true;
                    return Err(ClientErr::Closed);
                }
            }
        }
    }

    pub fn send_only(&mut self, command: &str, arguments: Value) -> Result<(), ClientErr> {
        self.seq += 1;
        let mut msg = json!({"type": "request", "seq": self.seq, "command": command});
        if !arguments.is_null() {
            msg["arguments"] = arguments;
        }
        hist("dap", "request", msg.clone());
        let mut w = &self.stream;
        write_frame(&mut w, &msg).map_err(|e| {
            self.dead = true;
            ClientErr::Io(e.to_string())
        })
    }

    /// Wait for the next event with the given name (queued ones first).
    pub fn wait_event(&mut self, name: &str, timeout: Duration) -> Option<Value> {
        if let Some(i) = self
            .pending_events
            .iter()
            .position(|e| e.get("event").and_then(|n| n.as_str()) == Some(name))
        {
            return self.pending_events.remove(i);
        }
        let deadline = clock::now_us() + timeout.as_micros() as u64;
        loop {
            let now = clock::now_us();
            if now >= deadline {
                return None;
            }
            match self.rx.recv_timeout(Duration::from_micros(deadline - now)) {
                Ok(v) => {
                    self.note_incoming(&v);
                    if v.get("type").and_then(|t| t.as_str()) == Some("event") {
                        if v.get("event").and_then(|n| n.as_str()) == Some(name) {
                            return Some(v);
                        }
                        self.pending_events.push_back(v);
                    }
                }
                Err(RecvTimeoutError::Timeout) => return None,
                Err(RecvTimeoutError::Disconnected) => {
                    self.dead = true;
                    return None;
                }
            }
        }
    }

    /// Drain everything that has already arrived without blocking.
    pub fn drain(&mut self) {
        while let Ok(v) = self.rx.try_recv() {
            self.note_incoming(&v);
            if v.get("type").and_then(|t| t.as_str()) == Some("event") {
                self.pending_events.push_back(v);
            }
        }
    }

    /// A debugger that stops reading and keeps asking: `n` requests written by a task of its own (it blocks
    /// for good once the buffers between the two processes are full).
    pub fn flood_without_reading(&mut self, n: usize) {
        hist("dap", "flood_without_reading", json!({ "requests": n }));
        self.deaf.store(true, std::sync::atomic::Ordering::SeqCst);
        let ws = self.stream.clone();
        let first = self.seq + 1;
        self.seq += n;
        let _ = shuttle::thread::Builder::new()
            .name("dap-client-flooder".into())
            .spawn(move || {
                for i in 0..n {
                    let msg = json!({"type": "request", "seq": first + i, "command": "threads"});
                    let mut w = &ws;
                    if write_frame(&mut w, &msg).is_err() {
                        break;
                    }
                }
            });
    }

    pub fn last_seq(&self) -> usize {
        self.seq
    }

    /// Wait until every one of the given requests has been answered (events are queued).
    pub fn await_responses(&mut self, seqs: &[usize]) -> Result<(), ClientErr> {
        let mut open: Vec<u64> = seqs.iter().map(|s| *s as u64).collect();
        while !open.is_empty() {
            match self.rx.recv_timeout(self.timeout) {
                Ok(v) => {
                    self.note_incoming(&v);
                    match v.get("type").and_then(|t| t.as_str()) {
                        Some("response") => {
                            if let Some(rs) = v.get("request_seq").and_then(|s| s.as_u64()) {
                                open.retain(|s| *s != rs);
                            }
                        }
                        Some("event") => self.pending_events.push_back(v),
                        _ => {}
                    }
                }
                Err(RecvTimeoutError::Timeout) => {
                    hist("dap", "timeout", json!({ "awaiting": open }));
                    self.dead = true;
                    return Err(ClientErr::Timeout);
                }
                Err(RecvTimeoutError::Disconnected) => {
                    self.dead = true;
                    return Err(ClientErr::Closed);
                }
            }
        }
        Ok(())
    }

    /// Read whatever arrives until nothing has arrived for `quiet` (simulated time).
    pub fn settle(&mut self, quiet: Duration) {
        loop {
            match self.rx.recv_timeout(quiet) {
                Ok(v) => {
                    self.note_incoming(&v);
                    if v.get("type").and_then(|t| t.as_str()) == Some("event") {
                        self.pending_events.push_back(v);
                    }
                }
                Err(RecvTimeoutError::Timeout) => return,
                Err(RecvTimeoutError::Disconnected) => {
                    self.dead = true;
                    return;
                }
            }
        }
    }

    pub fn take_event(&mut self, name: &str) -> Option<Value> {
        let i = self
            .pending_events
            .iter()
            .position(|e| e.get("event").and_then(|n| n.as_str()) == Some(name))?;
        self.pending_events.remove(i)
    }

    /// clean close (FIN) of the client's side
    pub fn close(&mut self) {
        hist("dap", "client_close", Value::Null);
        let _ = self.stream.shutdown(std::net::Shutdown::Both);
        self.dead = true;
    }

    /// abortive close (RST)
    pub fn reset(&mut self) {
        hist("dap", "client_reset", Value::Null);
        self.stream.reset();
        self.dead = true;
    }
}

// ---------------------------------------------------------------------------------------
// LSP
// ---------------------------------------------------------------------------------------

pub struct LspClient {
    w: ClientWriter,
    rx: Receiver<Value>,
    next_id: i64,
    pub timeout: Duration,
    pub notifications: Vec<Value>,
}

impl LspClient {
    pub fn new(w: ClientWriter, r: ClientReader) -> LspClient {
        let (tx, rx) = chan::unbounded::<Value>();
        let _ = shuttle::thread::Builder::new()
            .name("lsp-client-reader".into())
            .spawn(move || {
                let mut r = r;
                while let Ok(Some(v)) = read_frame(&mut r) {
                    if tx.send(v).is_err() {
                        break;
                    }
                }
            });
        LspClient {
            w,
            rx,
            next_id: 0,
            timeout: Duration::from_secs(20),
            notifications: vec![],
        }
    }

    pub fn notify(&mut self, method: &str, params: Value) -> Result<(), ClientErr> {
        let msg = json!({"jsonrpc": "2.0", "method": method, "params": params});
        hist("lsp", "notification", json!({ "method": method }));
        write_frame(&mut self.w, &msg).map_err(|e| ClientErr::Io(e.to_string()))
    }

    pub fn request(&mut self, method: &str, params: Value) -> Result<Value, ClientErr> {
        self.next_id += 1;
        let id = self.next_id;
        let msg = json!({"jsonrpc": "2.0", "id": id, "method": method, "params": params});
        hist("lsp", "request", json!({"method": method, "id": id}));
        write_frame(&mut self.w, &msg).map_err(|e| ClientErr::Io(e.to_string()))?;
        loop {
            match self.rx.recv_timeout(self.timeout) {
                Ok(v) => {
                    if v.get("id").and_then(|i| i.as_i64()) == Some(id) && v.get("method").is_none()
                    {
                        hist(
                            "lsp",
                            "response",
                            json!({"id": id, "error": v.get("error").cloned()}),
                        );
                        return Ok(v);
                    }
                    self.notifications.push(v);
                }
                Err(RecvTimeoutError::Timeout) => {
                    hist("lsp", "timeout", json!({ "method": method }));
                    return Err(ClientErr::Timeout);
                }
                Err(RecvTimeoutError::Disconnected) => {
                    hist("lsp", "closed_by_server", json!({ "method": method }));
                    return Err(ClientErr::Closed);
                }
            }
        }
    }

    pub fn initialize(&mut self) -> Result<(), ClientErr> {
        self.request("initialize", json!({"capabilities": {}}))?;
        self.notify("initialized", json!({}))
    }

    pub fn did_open(&mut self, path: &str, text: &str) -> Result<(), ClientErr> {
        let uri = lsp_types::Url::from_file_path(path).unwrap().to_string();
        self.notify(
            "textDocument/didOpen",
            json!({"textDocument": {"uri": uri, "languageId": "asm", "version": 0, "text": text}}),
        )
    }

    pub fn did_change(&mut self, path: &str, text: &str) -> Result<(), ClientErr> {
        let uri = lsp_types::Url::from_file_path(path).unwrap().to_string();
        self.notify(
            "textDocument/didChange",
            json!({"textDocument": {"uri": uri, "version": 1}, "contentChanges": [{"text": text}]}),
        )
    }

    /// bytes as they are (not necessarily a whole message)
    pub fn raw(&mut self, bytes: &[u8]) -> Result<(), ClientErr> {
        hist("lsp", "raw_bytes", json!({ "len": bytes.len() }));
        self.w.write_all(bytes).and_then(|_| self.w.flush()).map_err(|e| ClientErr::Io(e.to_string()))
    }

    /// close the client's end of the server's stdin
    pub fn close_pipe(&mut self) {
        hist("lsp", "client_closes_pipe", Value::Null);
        self.w.close();
    }
}

/// unused import guard
#[allow(dead_code)]
fn _unused(_r: &mut dyn Read) {}
