//! C19 (under construction)
use super::*;
pub fn main(_cli: &Cli) -> i32 {
    eprintln!("C19 engine not built yet");
    EXIT_HARNESS
}
