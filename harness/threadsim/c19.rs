//! C19: the debugger reports where the machine really is. The full simulated
//! `mos lsp` process runs a DAP session on the emulated test machine; a seeded
//! client issues requests with simulated delays; every interleaving of session,
//! machine, poller and IO threads is decided by the scheduler. Reference model:
//! the real `TestRunner` run sequentially on the same program; the register
//! `CYC` (strictly increasing per instruction) identifies the true machine
//! position from protocol-visible data alone.

use super::clients::{ClientErr, DapClient, LspClient};
use super::*;
use crate::commands::{lsp_command, LspArgs};
use crate::test_runner::{ExecuteResult, TestRunner};
use mos_core::parser::source::InMemoryParsingSource;
use mos_simrt::rng::{self, Rng};
use mos_simrt::shuttle;
use std::collections::BTreeSet;
use std::ops::Range;
use std::path::Path;
use std::time::Duration;

const PROP: &str = "C19";
pub const PORT: u16 = 6503;

// ---------------------------------------------------------------------------------------
// Workload: programs and client scripts
// ---------------------------------------------------------------------------------------

#[derive(Clone, Debug, PartialEq)]
pub enum Op {
    Delay(u64),
    WaitStopped(u64),
    Pause,
    Continue,
    Next,
    StepIn,
    StepOut,
    StackTrace,
    Scopes,
    Vars(u8),
    Evaluate(String),
    /// setBreakpoints for main.asm
    SetBreakpoints(Vec<(usize, Option<usize>)>),
    /// setBreakpoints for one source of a two-file program (0 = main.asm, 1 = lib.asm); the protocol
    /// replaces the breakpoints of THAT source only
    SetBreakpointsIn(u8, Vec<(usize, Option<usize>)>),
    Threads,
    /// setVariable(name, value text) - only sent while the client believes the machine is halted
    SetVariable(String, String),
    /// several run-control requests written back to back, without waiting for responses or events
    Pipelined(Vec<String>),
    /// `configurationDone` once more, in the middle of the session (it has been sent already): no effect expected
    ConfigurationDoneAgain,
}

impl Op {
    fn to_json(&self) -> Value {
        match self {
            Op::Delay(us) => json!({"op": "delay", "us": us}),
            Op::WaitStopped(ms) => json!({"op": "wait_stopped", "ms": ms}),
            Op::Pause => json!({"op": "pause"}),
            Op::Continue => json!({"op": "continue"}),
            Op::Next => json!({"op": "next"}),
            Op::StepIn => json!({"op": "stepIn"}),
            Op::StepOut => json!({"op": "stepOut"}),
            Op::StackTrace => json!({"op": "stackTrace"}),
            Op::Scopes => json!({"op": "scopes"}),
            Op::Vars(n) => json!({"op": "variables", "ref": n}),
            Op::Evaluate(e) => json!({"op": "evaluate", "expr": e}),
            Op::SetBreakpoints(b) => {
                json!({"op": "setBreakpoints", "lines": b.iter().map(|(l, c)| json!([l, c])).collect::<Vec<_>>()})
            }
            Op::SetBreakpointsIn(f, b) => {
                json!({"op": "setBreakpointsIn", "file": f, "lines": b.iter().map(|(l, c)| json!([l, c])).collect::<Vec<_>>()})
            }
            Op::Threads => json!({"op": "threads"}),
            Op::SetVariable(n, t) => json!({"op": "setVariable", "name": n, "value": t}),
            Op::Pipelined(c) => json!({"op": "pipelined", "cmds": c}),
            Op::ConfigurationDoneAgain => json!({"op": "configurationDoneAgain"}),
        }
    }
    fn from_json(v: &Value) -> Option<Op> {
        Some(match v.get("op")?.as_str()? {
            "delay" => Op::Delay(v.get("us")?.as_u64()?),
            "wait_stopped" => Op::WaitStopped(v.get("ms")?.as_u64()?),
            "pause" => Op::Pause,
            "continue" => Op::Continue,
            "next" => Op::Next,
            "stepIn" => Op::StepIn,
            "stepOut" => Op::StepOut,
            "stackTrace" => Op::StackTrace,
            "scopes" => Op::Scopes,
            "variables" => Op::Vars(v.get("ref")?.as_u64()? as u8),
            "evaluate" => Op::Evaluate(v.get("expr")?.as_str()?.to_string()),
            "setBreakpoints" => Op::SetBreakpoints(
                v.get("lines")?
                    .as_array()?
                    .iter()
                    .map(|p| {
                        Some((
                            p.get(0)?.as_u64()? as usize,
                            p.get(1).and_then(|c| c.as_u64()).map(|c| c as usize),
                        ))
                    })
                    .collect::<Option<Vec<_>>>()?,
            ),
            "setBreakpointsIn" => Op::SetBreakpointsIn(
                v.get("file")?.as_u64()? as u8,
                v.get("lines")?
                    .as_array()?
                    .iter()
                    .map(|p| {
                        Some((
                            p.get(0)?.as_u64()? as usize,
                            p.get(1).and_then(|c| c.as_u64()).map(|c| c as usize),
                        ))
                    })
                    .collect::<Option<Vec<_>>>()?,
            ),
            "threads" => Op::Threads,
            "configurationDoneAgain" => Op::ConfigurationDoneAgain,
            "pipelined" => Op::Pipelined(
                v.get("cmds")?
                    .as_array()?
                    .iter()
                    .map(|c| c.as_str().map(|x| x.to_string()))
                    .collect::<Option<Vec<_>>>()?,
            ),
            "setVariable" => Op::SetVariable(
                v.get("name")?.as_str()?.to_string(),
                v.get("value")?.as_str()?.to_string(),
            ),
            _ => return None,
        })
    }
}

/// breakpoints are identified by (line + LIB_BASE * file, column): lines >= LIB_BASE lie in lib.asm
pub const LIB_BASE: usize = 10_000;

#[derive(Clone, Debug)]
pub struct Case {
    pub program: String,
    /// second source file (lib.asm) holding the subroutines, imported by main.asm
    pub lib: Option<String>,
    pub initial_bps: Vec<(usize, Option<usize>)>,
    pub ops: Vec<Op>,
    pub lines_start_at_1: bool,
    pub seed: u64,
    pub entropy_seed: u64,
    pub knobs: ExecKnobs,
    pub end_with_drop: bool,
    /// a scripted client: few delays, and it rarely lingers at a stop (see `on_stopped`)
    pub fast_client: bool,
    /// an earlier debug session on the same server, ended before the judged one starts:
    /// 0 none, 1 ended by disconnect, 2 by dropping the connection, 3 by disconnect while the machine runs
    pub prelude: u8,
    /// `initialize` without linesStartAt1 / columnsStartAt1: the protocol default (true) applies
    pub omit_start_flags: bool,
}

impl Case {
    pub fn to_json(&self) -> Value {
        json!({
            "engine": "threadsim/C19", "program": self.program, "lib": self.lib,
            "initial_breakpoints": self.initial_bps.iter().map(|(l, c)| json!([l, c])).collect::<Vec<_>>(),
            "ops": self.ops.iter().map(|o| o.to_json()).collect::<Vec<_>>(),
            "lines_start_at_1": self.lines_start_at_1,
            "sched_seed": format!("{:#x}", self.seed), "entropy_seed": format!("{:#x}", self.entropy_seed),
            "knobs": self.knobs.to_json(), "end_with_drop": self.end_with_drop, "fast_client": self.fast_client, "prelude": self.prelude, "omit_start_flags": self.omit_start_flags,
        })
    }
    pub fn from_json(v: &Value) -> Option<Case> {
        Some(Case {
            program: v.get("program")?.as_str()?.to_string(),
            lib: v.get("lib").and_then(|l| l.as_str()).map(|l| l.to_string()),
            initial_bps: v
                .get("initial_breakpoints")?
                .as_array()?
                .iter()
                .map(|p| {
                    Some((
                        p.get(0)?.as_u64()? as usize,
                        p.get(1).and_then(|c| c.as_u64()).map(|c| c as usize),
                    ))
                })
                .collect::<Option<Vec<_>>>()?,
            ops: v
                .get("ops")?
                .as_array()?
                .iter()
                .map(Op::from_json)
                .collect::<Option<Vec<_>>>()?,
            lines_start_at_1: v.get("lines_start_at_1")?.as_bool()?,
            seed: v
                .get("sched_seed")
                .and_then(|s| s.as_str())
                .and_then(parse_u64)?,
            entropy_seed: v
                .get("entropy_seed")
                .and_then(|s| s.as_str())
                .and_then(parse_u64)?,
            knobs: ExecKnobs::from_json(v.get("knobs")?)?,
            end_with_drop: v
                .get("end_with_drop")
                .and_then(|b| b.as_bool())
                .unwrap_or(false),
            fast_client: v
                .get("fast_client")
                .and_then(|b| b.as_bool())
                .unwrap_or(false),
            prelude: v.get("prelude").and_then(|b| b.as_u64()).unwrap_or(0) as u8,
            omit_start_flags: v
                .get("omit_start_flags")
                .and_then(|b| b.as_bool())
                .unwrap_or(false),
        })
    }
}

const STRAIGHT: &[&str] = &[
    "lda #$11", "ldx #$22", "ldy #$33", "sta $10", "stx $11", "sty $12", "inx", "iny", "dex",
    "dey", "tax", "tay", "txa", "tya", "clc", "sec", "adc #$05", "nop", "inc $10", "dec $11",
    "lda $10", "ora #$40", "and #$7f", "eor #$ff", "asl", "lsr",
];

/// One `.test` body from a small grammar over the subset the property names:
/// straight-line code, counted loops, subroutines (nesting <= 2), optional
/// macro / .loop expansion so several addresses map to one line, asserts/traces.
pub fn gen_program(rng: &mut Rng) -> (String, Option<String>) {
    let (m, l, _) = gen_program_ext(rng);
    (m, l)
}

/// (main.asm, lib.asm, the program contains a long-running subroutine)
pub fn gen_program_ext(rng: &mut Rng) -> (String, Option<String>, bool) {
    let mut top = String::new();
    let use_macro = rng.chance(1, 3);
    if use_macro {
        top.push_str(".macro put(v) {\n    lda #v\n    sta $20\n}\n");
    }
    let n_subs = rng.below(3);
    let mut body = String::new();
    let mut label_id = 0;
    let mut emit_block =
        |rng: &mut Rng, out: &mut String, depth: usize, n_subs: usize, allow_calls: bool| {
            let n = rng.range(2, 6);
            for _ in 0..n {
                match rng.below(10) {
                    0 | 1 => {
                        // counted loop
                        label_id += 1;
                        let cnt = rng.range(1, 6);
                        let reg = if rng.chance(1, 2) {
                            ("ldx", "dex")
                        } else {
                            ("ldy", "dey")
                        };
                        out.push_str(&format!("    {} #{}\nloop{}:\n", reg.0, cnt, label_id));
                        for _ in 0..rng.range(1, 3) {
                            let ins = loop {
                                let i = *rng.pick(STRAIGHT);
                                // the loop body must not clobber its counter
                                if !(i.starts_with("ld") && i.contains(&reg.0[2..3]))
                                    && !i.starts_with("ta")
                                    && !i.starts_with("in")
                                    && !i.starts_with("de")
                                {
                                    break i;
                                }
                            };
                            out.push_str(&format!("    {}\n", ins));
                        }
                        out.push_str(&format!("    {}\n    bne loop{}\n", reg.1, label_id));
                    }
                    2 if allow_calls && n_subs > 0 && depth < 2 => {
                        out.push_str(&format!("    jsr sub{}\n", rng.below(n_subs)));
                    }
                    3 if use_macro => {
                        out.push_str(&format!("    put({})\n", rng.below(200)));
                    }
                    4 => {
                        out.push_str(&format!(".loop {} {{\n    inx\n}}\n", rng.range(2, 3)));
                    }
                    5 if rng.chance(1, 2) => {
                        // (assertions that hold; the ones about memory are evaluated by the machine through the
                        // `ram` function, which the debugger registers)
                        out.push_str(*rng.pick(&[
                            "    .assert 1 == 1\n",
                            "    .trace (cpu.a)\n",
                            "    .assert ram($20) == ram($20)\n",
                            "    .assert ram16($20) >= 0\n",
                        ]));
                    }
                    _ => {
                        out.push_str(&format!("    {}\n", rng.pick(STRAIGHT)));
                    }
                }
            }
        };
    emit_block(rng, &mut body, 0, n_subs, true);
    if n_subs > 0 && !body.contains("jsr") {
        body.push_str("    jsr sub0\n");
    }
    emit_block(rng, &mut body, 0, n_subs, true);
    // one program in eight never ends: it waits in a one-instruction loop, as programs for these machines do
    match rng.below(16) {
        0 => body.push_str("spin:\n    jmp spin\n"),
        1 => body.push_str("    lda #1\nspin:\n    bne spin\n"),
        _ => body.push_str("    brk\n"),
    }
    let mut subs = String::new();
    let mut long_running = false;
    for s in 0..n_subs {
        // every subroutine is a scope of its own with a constant that shadows the one of the test body: what
        // `evaluate` and the locals say about `marker` tells in which scope the debugger thinks the machine is
        subs.push_str(&format!("sub{}: {{\n    .const marker = {}\n", s, 10 + s));
        match rng.below(12) {
            // recursion: the same code runs in several activations at once
            0 | 1 if s == 0 => {
                subs.push_str(&format!(
                    "    ldx #{}\nrec{}:\n    dex\n    beq rdone{}\n    jsr rec{}\nrdone{}:\n",
                    rng.range(2, 4),
                    s,
                    s,
                    s,
                    s
                ));
            }
            // a delay loop of about 70 000 instructions: one `next` or `stepOut` has a lot to run through
            2 if !long_running => {
                long_running = true;
                subs.push_str(&format!("    ldx #{}\ndla{}:\n    ldy #0\ndlb{}:\n    dey\n    bne dlb{}\n    dex\n    bne dla{}\n", rng.range(132, 140), s, s, s, s));
            }
            _ => {
                let mut sub = String::new();
                // sub1 may call sub0 (nesting <= 2), sub0 calls nothing
                emit_block(rng, &mut sub, 1, if s > 0 { 1 } else { 0 }, s > 0);
                subs.push_str(&sub);
            }
        }
        if rng.chance(1, 4) {
            // something else than the return address on the stack for a while
            subs.push_str(&format!("    pha\n    {}\n    pla\n", rng.pick(STRAIGHT)));
        }
        if rng.chance(1, 8) {
            // the "run it twice" idiom: a call to the very next instruction
            subs.push_str(&format!("    jsr twice{}\ntwice{}:\n    inc $13\n", s, s));
        }
        subs.push_str("    rts\n}\n");
    }
    body.insert_str(0, "    .const marker = 1\n");
    // one program with subroutines in five puts them in a segment at a LOWER address that comes LATER in the
    // source (the layout of the segment example in the documentation): source order and address order disagree
    if n_subs > 0 && rng.chance(1, 5) {
        let defs = ".define segment {\n    name = \"hi\"\n    start = $c000\n}\n.define segment {\n    name = \"lo\"\n    start = $2000\n}\n";
        return (
            format!("{}{}.segment \"hi\" {{\n.test \"t\" {{\n{}}}\n}}\n.segment \"lo\" {{\n{}}}\n", top, defs, body, subs),
            None,
            long_running,
        );
    }
    // one program with subroutines in three keeps them in a file of its own
    if n_subs > 0 && !use_macro && rng.chance(1, 3) {
        // the second file's name differs from the first one's by more than letter case - or only by that
        let lib_name = *rng.pick(&["lib.asm", "lib.asm", "MAIN.ASM", "Main.asm"]);
        body.push_str(&format!("    .import * from \"{}\"\n", lib_name));
        return (
            format!("{}.test \"t\" {{\n{}}}\n", top, body),
            Some(subs),
            long_running,
        );
    }
    body.push_str(&subs);
    (
        format!("{}.test \"t\" {{\n{}}}\n", top, body),
        None,
        long_running,
    )
}

pub fn gen_case(seed: u64, k: u64) -> Case {
    let mut r = Rng::new(rng::derive(seed, "c19.case", k));
    let (program, lib, long_running) = gen_program_ext(&mut r);
    let code_lines_of = |text: &str| -> Vec<usize> {
        text.lines()
            .enumerate()
            .filter(|(_, l)| {
                let t = l.trim();
                l.starts_with("    ") && !t.starts_with('.') && !t.is_empty()
            })
            .map(|(i, _)| i)
            .collect()
    };
    let n_lines = program.lines().count();
    let code_lines: Vec<usize> = code_lines_of(&program);
    let lib_lines: Vec<usize> = lib.as_deref().map(code_lines_of).unwrap_or_default();
    let pick_lib_bps = |r: &mut Rng| -> Vec<(usize, Option<usize>)> {
        let mut v: Vec<(usize, Option<usize>)> = vec![];
        for _ in 0..r.below(3) {
            if let Some(line) = if lib_lines.is_empty() {
                None
            } else {
                Some(*r.pick(&lib_lines))
            } {
                if !v.iter().any(|(l, _)| *l == line) {
                    v.push((line, None));
                }
            }
        }
        v
    };
    let pick_bps = |r: &mut Rng| -> Vec<(usize, Option<usize>)> {
        let n = r.below(4);
        let mut v = vec![];
        for _ in 0..n {
            let line = if r.chance(1, 8) || code_lines.is_empty() {
                r.below(n_lines.max(1))
            } else {
                *r.pick(&code_lines)
            };
            let col = if r.chance(1, 6) {
                Some(r.range(4, 8))
            } else {
                None
            };
            if !v.iter().any(|(l, _)| *l == line) {
                v.push((line, col));
            }
        }
        v
    };
    let initial_bps = pick_bps(&mut r);
    // swarm weights
    let mut w: Vec<u32> = (0..13).map(|_| 1 + r.below(6) as u32).collect();
    w.push(r.below(3) as u32);
    w.push(r.below(2) as u32);
    // one case in four is a "breakpoint churn" session: the breakpoint list is replaced again and
    // again while the machine runs (races between the session's write and the machine thread's reads)
    let mut fast_client = false;
    if r.chance(1, 4) {
        w = vec![4, 1, 5, 1, 1, 1, 1, 0, 2, 1, 12, 0, 1, 0, 0];
    } else if r.chance(1, 3) {
        // one case in four is a scripted stepper: wait for a stop, step, continue, back to back
        w = vec![8, 1, 8, 5, 4, 1, 1, 0, 1, 1, 1, 0, 1, 4, 1];
        fast_client = true;
    }
    let delays: [u64; 8] = [0, 0, 1_000, 10_000, 49_000, 50_000, 51_000, 200_000];
    let n_ops = r.range(6, 40);
    let mut ops = vec![];
    for _ in 0..n_ops {
        if r.chance(if fast_client { 1 } else { 4 }, 6) {
            ops.push(Op::Delay(*r.pick(&delays) + r.below(500) as u64));
        }
        let op = match r.weighted(&w) {
            0 => Op::WaitStopped(*r.pick(&[60u64, 200, 1000])),
            1 => Op::Pause,
            2 => Op::Continue,
            3 => Op::Next,
            4 => Op::StepIn,
            5 => Op::StepOut,
            6 => Op::StackTrace,
            7 => Op::Scopes,
            8 => Op::Vars(*r.pick(&[1u8, 1, 2, 3])),
            9 => Op::Evaluate(
                r.pick_str(&["cpu.a", "cpu.x", "cpu.y", "cpu.a + cpu.x", "cpu.flags.zero", "cpu.flags.carry", "marker", "marker", "marker + cpu.x"])
                .to_string(),
            ),
            10 if lib.is_some() => {
                if r.chance(1, 2) {
                    Op::SetBreakpointsIn(0, pick_bps(&mut r))
                } else {
                    Op::SetBreakpointsIn(1, pick_lib_bps(&mut r))
                }
            }
            10 => Op::SetBreakpoints(pick_bps(&mut r)),
            11 => Op::Threads,
            14 => Op::ConfigurationDoneAgain,
            13 => {
                let n = r.range(2, 3);
                Op::Pipelined(
                    (0..n)
                        .map(|_| {
                            r.pick_str(&["pause", "continue", "continue", "next", "stepIn"])
                                .to_string()
                        })
                        .collect(),
                )
            }
            _ => {
                let name = r.pick_str(&["A", "X", "Y", "A", "X", "PC"]).to_string();
                let n = r.below(256);
                let text = match r.below(6) {
                    0 => format!("${:02x}", n),
                    1 => format!("%{:08b}", n),
                    2 => (*r.pick_str(&["300", "zz", "$100", "-1", ""])).to_string(),
                    _ => n.to_string(),
                };
                Op::SetVariable(name, text)
            }
        };
        ops.push(op);
    }
    let omit_start_flags = r.chance(1, 5);
    Case {
        program,
        lib,
        initial_bps,
        ops,
        lines_start_at_1: omit_start_flags || r.chance(1, 2),
        seed: rng::derive(seed, "c19.sched", k),
        entropy_seed: rng::derive(seed, "c19.entropy", k),
        knobs: ExecKnobs {
            sched: mos_simrt::sched::SchedKnobs {
                stay_bias: *r.pick(&[0u32, 0, 30, 60, 90]),
                early_coin: *r.pick(&[2u32, 4, 8, 16]),
                stall_bound_us: 1_000_000,
                schedule: None,
            },
            net: mos_simrt::net::NetKnobs {
                max_chunk: *r.pick(&[0usize, 0, 0, 3, 64]),
                buffer_cap: *r.pick(&[1usize << 20, 1 << 20, 4096]),
            },
            // a long-running subroutine costs a few scheduling steps per instruction
            max_steps: if long_running { 4_000_000 } else { 600_000 },
            record_schedule: false,
        },
        end_with_drop: r.chance(1, 4),
        fast_client,
        // 1-3: an earlier session on a connection of its own; 4: an earlier LAUNCH on the judged connection itself, of
        // another version of the program (the editor's "restart debugging" after an edit)
        prelude: if r.chance(1, 4) {
            1 + r.below(4) as u8
        } else {
            0
        },
        omit_start_flags,
    }
}

// ---------------------------------------------------------------------------------------
// Reference model: the real TestRunner, run sequentially
// ---------------------------------------------------------------------------------------

#[derive(Clone, Debug)]
pub struct TraceEntry {
    pub cycles: u64,
    pub pc: u16,
    pub a: u8,
    pub x: u8,
    pub y: u8,
    pub sp: u8,
    pub flags: u8,
    pub opcode: u8,
    /// return target on top of the reference call stack before this instruction
    pub return_to: Option<u16>,
    /// number of subroutine activations this instruction runs in (0 = the test body itself)
    pub depth: u16,
}

#[derive(Clone, Debug)]
pub struct Frame {
    pub path: String,
    pub line: usize,
    pub column: usize,
    pub end_line: usize,
    pub end_column: usize,
}

pub struct Reference {
    /// register writes by the client: (CYC at which the machine was halted, register, value)
    pub overrides: Vec<(u64, String, u8)>,
    /// the uninterrupted run, computed lazily: programs may run for ever (`spin: jmp spin`)
    pub trace: Vec<TraceEntry>,
    /// the run has ended (BRK / failed assertion); otherwise the trace can be extended
    pub finished: bool,
    runner: Option<TestRunner>,
    call_stack: Vec<u16>,
    /// span of a pc: (path, begin line, begin col, end line, end col), 0-based; filled on demand
    frames: BTreeMap<u16, Option<Frame>>,
    pub ok: bool,
    pub error: String,
    pub bp_ranges: BTreeMap<(usize, Option<usize>), Vec<Range<usize>>>,
    pub n_lines: usize,
}

/// entries computed up front
pub const MAX_TRACE: usize = 3000;
/// entries a reference run is extended to at most
pub const HARD_TRACE_CAP: usize = 200_000;

pub fn build_reference(program: &str, lib: Option<&str>, path: &str) -> Reference {
    build_reference_with(program, lib, path, &[])
}

/// the path of the second source file: the name is the one main.asm imports
fn lib_path_of(program: &str) -> String {
    let name = program
        .lines()
        .find_map(|l| l.trim().strip_prefix(".import * from \"").and_then(|r| r.strip_suffix('"')))
        .unwrap_or("lib.asm");
    format!("{}/{}", WS, name)
}

fn sources(program: &str, lib: Option<&str>, path: &str) -> InMemoryParsingSource {
    let src = InMemoryParsingSource::new().add(path, program);
    match lib {
        Some(l) => src.add(&lib_path_of(program), l),
        None => src,
    }
}

/// The uninterrupted run, with the client's register writes applied at the positions at which
/// the (halted) machine received them.
pub fn build_reference_with(
    program: &str,
    lib: Option<&str>,
    path: &str,
    overrides: &[(u64, String, u8)],
) -> Reference {
    let mut reference = Reference {
        overrides: overrides.to_vec(),
        trace: vec![],
        finished: false,
        runner: None,
        call_stack: vec![],
        frames: BTreeMap::new(),
        ok: false,
        error: String::new(),
        bp_ranges: BTreeMap::new(),
        n_lines: program.lines().count(),
    };
    let src = sources(program, lib, path).into();
    match TestRunner::new(src, Path::new(path), &"t".into()) {
        Ok(r) => reference.runner = Some(r),
        Err(e) => {
            reference.error = e.to_string();
            return reference;
        }
    };
    reference.extend_to_len(MAX_TRACE);
    reference.ok = reference.error.is_empty();
    reference
}

impl Reference {
    /// Execute one more instruction of the reference run (false: the run is over or cannot go on).
    fn extend_one(&mut self) -> bool {
        if self.finished || !self.error.is_empty() || self.trace.len() >= HARD_TRACE_CAP {
            return false;
        }
        let runner = match self.runner.as_mut() {
            Some(r) => r,
            None => return false,
        };
        let now = runner.num_cycles() as u64;
        for (c, name, value) in &self.overrides {
            if *c == now {
                let cpu = runner.cpu_mut();
                match name.as_str() {
                    "A" => cpu.set_accumulator(*value),
                    "X" => cpu.set_x_register(*value),
                    "Y" => cpu.set_y_register(*value),
                    _ => {}
                }
            }
        }
        let cpu = runner.cpu();
        let pc = cpu.get_program_counter();
        let entry = TraceEntry {
            cycles: runner.num_cycles() as u64,
            pc,
            a: cpu.get_accumulator(),
            x: cpu.get_x_register(),
            y: cpu.get_y_register(),
            sp: cpu.get_stack_pointer(),
            flags: cpu.get_status_register(),
            opcode: 0,
            return_to: self.call_stack.last().cloned(),
            depth: self.call_stack.len() as u16,
        };
        self.trace.push(entry);
        let sp_before = runner.cpu().get_stack_pointer();
        match runner.execute_instruction() {
            Ok(ExecuteResult::Running) => {
                let sp_after = runner.cpu().get_stack_pointer();
                let new_pc = runner.cpu().get_program_counter();
                // jsr pushes two bytes and jumps; rts pops two bytes
                if sp_after == sp_before.wrapping_sub(2) && new_pc != pc.wrapping_add(1) {
                    self.call_stack.push(pc.wrapping_add(3));
                    self.trace.last_mut().unwrap().opcode = 0x20;
                } else if sp_after == sp_before.wrapping_add(2) {
                    self.call_stack.pop();
                    self.trace.last_mut().unwrap().opcode = 0x60;
                }
                true
            }
            Ok(ExecuteResult::TestSuccess(_)) | Ok(ExecuteResult::TestFailed(_, _)) => {
                self.finished = true;
                false
            }
            Err(e) => {
                self.error = e.to_string();
                false
            }
        }
    }

    pub fn extend_to_len(&mut self, n: usize) {
        while self.trace.len() < n && self.extend_one() {}
    }

    /// whether the trace covers everything the run can ever do
    pub fn complete(&self) -> bool {
        self.finished
    }

    /// source span of a pc, through the same source map the server uses
    pub fn frame_of(&mut self, pc: u16) -> Option<Frame> {
        if let Some(f) = self.frames.get(&pc) {
            return f.clone();
        }
        let f = self.runner.as_ref().and_then(|runner| {
            let cg = runner.codegen();
            let cg = cg.lock().unwrap();
            cg.source_map().address_to_offset(pc as usize).map(|o| {
                let sl = cg.tree().code_map.look_up_span(o.span);
                Frame {
                    path: sl.file.name().to_string(),
                    line: sl.begin.line,
                    column: sl.begin.column,
                    end_line: sl.end.line,
                    end_column: sl.end.column,
                }
            })
        });
        self.frames.insert(pc, f.clone());
        f
    }

    /// address ranges of a breakpoint key (line + LIB_BASE * file, column)
    pub fn ranges_for(
        &mut self,
        program: &str,
        lib: Option<&str>,
        path: &str,
        line: usize,
        col: Option<usize>,
    ) -> Vec<Range<usize>> {
        if let Some(r) = self.bp_ranges.get(&(line, col)) {
            return r.clone();
        }
        let (file_path, file_line) = if line >= LIB_BASE {
            (lib_path_of(program), line - LIB_BASE)
        } else {
            (path.to_string(), line)
        };
        // recompute through a fresh codegen of the same program (cheap, deterministic)
        let src = sources(program, lib, path).into();
        let v = match TestRunner::new(src, Path::new(path), &"t".into()) {
            Ok(runner) => {
                let cg = runner.codegen();
                let cg = cg.lock().unwrap();
                let r: Vec<Range<usize>> = cg
                    .source_map()
                    .line_col_to_offsets(&cg.tree().code_map, &file_path, file_line, col)
                    .into_iter()
                    .map(|o| o.pc.clone())
                    .collect();
                r
            }
            Err(_) => vec![],
        };
        self.bp_ranges.insert((line, col), v.clone());
        v
    }

    /// The position of the run at which the cycle counter reads `cyc` (cycles only grow).
    pub fn index_of_cycles(&mut self, cyc: u64) -> Option<usize> {
        while self.trace.last().map(|t| t.cycles < cyc).unwrap_or(true) && self.extend_one() {}
        self.trace.binary_search_by(|t| t.cycles.cmp(&cyc)).ok()
    }

    /// first position >= `from` whose entry satisfies `pred` (the run is extended as needed)
    pub fn find_from(&mut self, from: usize, pred: impl Fn(&TraceEntry) -> bool) -> Option<usize> {
        let mut k = from;
        loop {
            if k >= self.trace.len() && !self.extend_one() && k >= self.trace.len() {
                return None;
            }
            if pred(&self.trace[k]) {
                return Some(k);
            }
            k += 1;
        }
    }
}

// ---------------------------------------------------------------------------------------
// Scenario
// ---------------------------------------------------------------------------------------

#[derive(Clone, Debug)]
pub struct Found {
    pub class: String,
    pub sig: String,
    pub message: String,
}

#[derive(Clone, Debug, Default)]
pub struct Verdict {
    pub found: Option<(String, String, String)>,
    pub setup_ok: bool,
    pub stops_observed: u64,
    pub pauses: u64,
    pub steps: u64,
    pub resumes: u64,
    pub bp_changes_while_running: u64,
    pub steps_while_running: u64,
    pub checks: BTreeMap<String, u64>,
    pub terminated: bool,
    pub trace_len: usize,
    pub notes: Vec<String>,
    pub ops_done: u64,
    pub set_variables: u64,
    pub pipelined: u64,
}

#[derive(Clone, Debug, PartialEq)]
enum View {
    Running,
    Stopped(usize),
    Terminated,
    Unknown,
}

struct Session<'a> {
    case: &'a Case,
    reference: Reference,
    dap: DapClient,
    v: Verdict,
    view: View,
    /// breakpoint requests currently active in the adapter: (line0, col)
    active_bps: Vec<(usize, Option<usize>)>,
    /// free-run bookkeeping
    run_from: Option<i64>,
    run_bps_throughout: Vec<(usize, Option<usize>)>,
    /// every breakpoint that was active at some moment of the current free run
    run_bps_ever: Vec<(usize, Option<usize>)>,
    /// breakpoints set while running: (bp, index observed after the response)
    run_bps_added: Vec<((usize, Option<usize>), Option<usize>)>,
    pause_sent: bool,
    /// the next stop is looked at twice whatever the client's pacing
    force_second_look: bool,
    path: String,
}

fn var_value(resp: &Value, name: &str) -> Option<String> {
    resp.get("body")?
        .get("variables")?
        .as_array()?
        .iter()
        .find(|v| v.get("name").and_then(|n| n.as_str()) == Some(name))
        .and_then(|v| {
            v.get("value")
                .and_then(|x| x.as_str())
                .map(|s| s.to_string())
        })
}

impl<'a> Session<'a> {
    fn fail(&mut self, class: &str, sig: &str, msg: String) {
        if self.v.found.is_none() {
            hist(
                "harness",
                "violation",
                json!({"class": class, "message": msg}),
            );
            self.v.found = Some((class.to_string(), sig.to_string(), msg));
        }
    }
    fn count(&mut self, k: &str) {
        *self.v.checks.entry(k.to_string()).or_insert(0) += 1;
    }
    fn line_out(&self, l: usize) -> usize {
        if self.case.lines_start_at_1 {
            l + 1
        } else {
            l
        }
    }

    fn in_ranges(&mut self, pc: u16, bps: &[(usize, Option<usize>)]) -> bool {
        let program = self.case.program.clone();
        let lib = self.case.lib.clone();
        let path = self.path.clone();
        for (l, c) in bps {
            for r in self
                .reference
                .ranges_for(&program, lib.as_deref(), &path, *l, *c)
            {
                if r.start <= pc as usize && (pc as usize) < r.end {
                    return true;
                }
            }
        }
        false
    }

    /// The value of the constant `marker` in the scope the instruction at `pc` was written in (every subroutine
    /// shadows the one of the test body). None when the text does not tell: a macro body takes the scope of its
    /// invocation.
    fn expected_marker(&mut self, pc: u16) -> Option<i64> {
        let f = self.reference.frame_of(pc)?;
        let text: String = if f.path == lib_path_of(&self.case.program) { self.case.lib.clone()? } else { self.case.program.clone() };
        let lines: Vec<&str> = text.lines().collect();
        let mut closed = 0usize;
        let mut l = f.line;
        loop {
            let t = *lines.get(l)?;
            if t == "}" && l != f.line {
                closed += 1;
            } else if t.ends_with('{') && l != f.line {
                if closed > 0 {
                    closed -= 1;
                } else if t.starts_with(".macro") {
                    return None;
                } else if let Some(n) = t.strip_prefix("sub").and_then(|r| r.strip_suffix(": {")).and_then(|n| n.parse::<i64>().ok()) {
                    return Some(10 + n);
                }
                // `.loop`, `.test`, `.segment`: keep looking further out
            }
            if l == 0 {
                break;
            }
            l -= 1;
        }
        if self.case.program.contains(".const marker = 1") {
            Some(1)
        } else {
            None
        }
    }

    /// variables(1): returns the index identified by CYC (and checks registers when `check` is set)
    fn query_registers(
        &mut self,
        check_against: Option<usize>,
    ) -> Result<Option<usize>, ClientErr> {
        let r = self
            .dap
            .request("variables", json!({"variablesReference": 1}))?;
        let cyc = var_value(&r, "CYC").and_then(|s| s.parse::<u64>().ok());
        let cyc = match cyc {
            Some(c) => c,
            None => return Ok(None),
        };
        let idx = self.reference.index_of_cycles(cyc);
        if idx.is_none()
            && !self.reference.complete()
            && self
                .reference
                .trace
                .last()
                .map(|t| t.cycles < cyc)
                .unwrap_or(true)
        {
            // the machine has run further than the reference run is followed (HARD_TRACE_CAP): nothing to compare with
            self.v.notes.push(format!(
                "CYC {} lies beyond the {} instructions of the reference run that are followed",
                cyc,
                self.reference.trace.len()
            ));
            return Ok(None);
        }
        if idx.is_none() {
            self.fail(
                "state_not_on_reference_run",
                "state_not_on_reference_run",
                format!(
                    "registers report CYC={} which is not a state of the uninterrupted run",
                    cyc
                ),
            );
            return Ok(None);
        }
        let idx = idx.unwrap();
        if let Some(exp) = check_against {
            self.count("halted_cyc_stable");
            if idx != exp {
                let (e, g) = (
                    self.reference.trace[exp].clone(),
                    self.reference.trace[idx].clone(),
                );
                self.fail(
                    "machine_moved_while_stopped",
                    "moved_while_stopped",
                    format!("the machine is reported stopped at instruction #{} (pc ${:04x}) but its registers now show instruction #{} (pc ${:04x}, CYC {}): it executed while stopped", exp, e.pc, idx, g.pc, cyc),
                );
                return Ok(Some(idx));
            }
            let t = self.reference.trace[idx].clone();
            for (n, want) in [("A", t.a), ("X", t.x), ("Y", t.y)] {
                let got = var_value(&r, n).and_then(|s| s.parse::<i64>().ok());
                self.count("register_values");
                if got != Some(want as i64) {
                    self.fail(
                        "wrong_register",
                        "wrong_register",
                        format!(
                            "register {} reported {:?}, the machine at instruction #{} has {}",
                            n, got, idx, want
                        ),
                    );
                }
            }
        }
        Ok(Some(idx))
    }

    /// Called when the client learns that the machine stopped. Establishes the true index and checks run rules.
    fn on_stopped(&mut self, by_step_expect: Option<usize>) -> Result<(), ClientErr> {
        self.v.stops_observed += 1;
        let idx = match self.query_registers(None)? {
            Some(i) => i,
            None => {
                self.view = View::Unknown;
                return Ok(());
            }
        };
        // the machine must be halted: a second look after >= 51 ms of simulated time - at two stops out of
        // three (a scripted client: one out of four); at the others the client goes on at once, so that its next requests reach the session
        // within one 50 ms poll of the machine thread (a scripted or pipelining client)
        let linger = rng::derive(self.case.seed, "c19.second_look", self.v.stops_observed) % 12;
        let forced = std::mem::take(&mut self.force_second_look);
        if forced || linger >= if self.case.fast_client { 9 } else { 4 } {
            clock::sleep(Duration::from_millis(51));
            if self.query_registers(Some(idx))?.is_none() {
                self.view = View::Unknown;
                return Ok(());
            }
        }
        if self.v.found.is_some() {
            self.view = View::Stopped(idx);
            return Ok(());
        }
        // every stop: the reported frame must contain the true program counter
        self.check_stack_trace(idx)?;
        if self.v.found.is_some() {
            self.view = View::Stopped(idx);
            return Ok(());
        }
        if let Some(exp) = by_step_expect {
            self.count("step_target");
            if idx != exp {
                let (e, g) = (
                    self.reference.trace[exp].clone(),
                    self.reference.trace[idx].clone(),
                );
                self.fail("step_target", "step_target", format!("after the step the machine should be at instruction #{} (pc ${:04x}) of the uninterrupted run, it is at #{} (pc ${:04x})", exp, e.pc, idx, g.pc));
            }
        } else if let Some(i0) = self.run_from.take() {
            self.check_free_run(i0, idx);
            if !self.pause_sent && self.v.found.is_none() {
                let pc = self.reference.trace[idx].pc;
                let all = self.run_bps_ever.clone();
                self.count("stop_at_breakpoint");
                if !self.in_ranges(pc, &all) {
                    self.fail("stop_without_cause", "stop_without_cause", format!("the machine stopped at instruction #{} (pc ${:04x}) although no breakpoint covers it and no pause was requested", idx, pc));
                }
            }
        }
        self.pause_sent = false;
        self.run_bps_added.clear();
        self.view = View::Stopped(idx);
        Ok(())
    }

    /// free run from i0 (-1: launch, nothing executed yet) up to (excluding) `end`; the instruction at i0
    /// itself may lie on a breakpoint (resuming from it is legal)
    fn check_free_run(&mut self, i0: i64, end: usize) {
        let throughout = self.run_bps_throughout.clone();
        let added = self.run_bps_added.clone();
        for k in ((i0 + 1) as usize)..end {
            let pc = self.reference.trace[k].pc;
            self.count("no_breakpoint_run_over");
            let mut hit = self.in_ranges(pc, &throughout);
            if !hit {
                for (bp, since) in &added {
                    if let Some(s) = since {
                        if k > *s && self.in_ranges(pc, &[*bp]) {
                            hit = true;
                        }
                    }
                }
            }
            if hit {
                self.fail(
                    "breakpoint_run_over",
                    "breakpoint_run_over",
                    format!("free run from instruction #{} to #{}: instruction #{} at pc ${:04x} lies in an active breakpoint range but was executed without stopping", i0, end, k, pc),
                );
                break;
            }
        }
    }

    /// The client learns that the test ended. A free run that ends the program executed every remaining
    /// instruction of the reference run, so none of them may lie on an active breakpoint.
    fn on_terminated(&mut self) {
        self.v.terminated = true;
        if self.view == View::Running && !self.pause_sent && self.v.found.is_none() {
            if let Some(i0) = self.run_from.take() {
                self.reference.extend_to_len(HARD_TRACE_CAP);
                if self.reference.complete() {
                    let end = self.reference.trace.len();
                    self.count("terminated_run_checked");
                    self.check_free_run(i0, end);
                }
            }
        }
        self.view = View::Terminated;
    }

    fn begin_free_run(&mut self, from: i64) {
        self.run_from = Some(from);
        self.run_bps_throughout = self.active_bps.clone();
        self.run_bps_ever = self.active_bps.clone();
        self.run_bps_added.clear();
        self.pause_sent = false;
        self.view = View::Running;
        // a `stopped` event received before the resume was requested cannot refer to this run
        while self.dap.take_event("stopped").is_some() {}
    }

    /// where a step from position `i` must end; None: not known within the reference budget
    fn expected_after(&mut self, op: &Op, i: usize) -> Option<usize> {
        self.reference.extend_to_len(i + 2);
        let len = self.reference.trace.len();
        let last = len - 1;
        let complete = self.reference.complete();
        // past the last instruction of a finished run the machine stays where it is
        let next_one = if i + 1 < len {
            Some(i + 1)
        } else if complete {
            Some(last)
        } else {
            None
        };
        let t_i = self.reference.trace[i].clone();
        match op {
            Op::StepIn => next_one,
            Op::Next => {
                if t_i.opcode == 0x20 {
                    // the call is one step: the next position at which its activation is gone again
                    // (recursion and `jsr` to the following instruction reach pc+3 earlier, deeper down)
                    let d = t_i.depth;
                    match self.reference.find_from(i + 1, |t| t.depth <= d) {
                        Some(k) => Some(k),
                        None if self.reference.complete() => Some(self.reference.trace.len() - 1),
                        None => None,
                    }
                } else {
                    next_one
                }
            }
            Op::StepOut => {
                if t_i.depth == 0 {
                    Some(i)
                } else {
                    // the instruction after the call that created the current activation
                    let d = t_i.depth;
                    match self.reference.find_from(i + 1, |t| t.depth < d) {
                        Some(k) => Some(k),
                        None if self.reference.complete() => Some(self.reference.trace.len() - 1),
                        None => None,
                    }
                }
            }
            _ => Some(i),
        }
    }

    fn check_stack_trace(&mut self, idx: usize) -> Result<(), ClientErr> {
        let r = self.dap.request("stackTrace", json!({"threadId": 1}))?;
        let frames = r
            .get("body")
            .and_then(|b| b.get("stackFrames"))
            .and_then(|f| f.as_array())
            .cloned()
            .unwrap_or_default();
        let pc = self.reference.trace[idx].pc;
        let want = self.reference.frame_of(pc);
        self.count("frame_contains_pc");
        match (frames.first(), want) {
            (Some(f), Some(w)) => {
                let got = (
                    f.get("line").and_then(|x| x.as_u64()).unwrap_or(u64::MAX) as usize,
                    f.get("endLine")
                        .and_then(|x| x.as_u64())
                        .unwrap_or(u64::MAX) as usize,
                    f.get("source")
                        .and_then(|s| s.get("path"))
                        .and_then(|p| p.as_str())
                        .unwrap_or("")
                        .to_string(),
                );
                let exp = (
                    self.line_out(w.line),
                    self.line_out(w.end_line),
                    w.path.clone(),
                );
                if got != exp {
                    self.fail(
                        "frame_not_at_pc",
                        "frame_not_at_pc",
                        format!("the machine is halted at instruction #{} (pc ${:04x}, source lines {}..{}) but the reported frame is lines {}..{} of {}", idx, pc, exp.0, exp.1, got.0, got.1, got.2),
                    );
                }
            }
            (None, Some(w)) => {
                self.fail("frame_missing", "frame_missing", format!("no stack frame is reported although the machine is halted at pc ${:04x} (line {})", pc, self.line_out(w.line)));
            }
            _ => {}
        }
        Ok(())
    }

    fn apply_op(&mut self, op: &Op) -> Result<(), ClientErr> {
        self.v.ops_done += 1;
        // keep the client's view up to date with what has already arrived
        self.dap.drain();
        if self.dap.take_event("terminated").is_some() {
            self.on_terminated();
        }
        if self.view == View::Running {
            if self.dap.take_event("stopped").is_some() {
                self.on_stopped(None)?;
            }
        }
        if self.view == View::Terminated || self.view == View::Unknown {
            return Ok(());
        }
        match (op, self.view.clone()) {
            (Op::Delay(us), _) => clock::sleep(Duration::from_micros(*us)),
            (Op::WaitStopped(ms), View::Running) => {
                if self
                    .dap
                    .wait_event("stopped", Duration::from_millis(*ms))
                    .is_some()
                {
                    self.on_stopped(None)?;
                } else if self.dap.take_event("terminated").is_some() {
                    self.on_terminated();
                }
            }
            (Op::Pause, View::Running) => {
                self.v.pauses += 1;
                self.pause_sent = true;
                let r = self.dap.request("pause", json!({"threadId": 1}))?;
                if r.get("success").and_then(|s| s.as_bool()) == Some(true) {
                    if self
                        .dap
                        .wait_event("stopped", Duration::from_secs(5))
                        .is_some()
                    {
                        self.on_stopped(None)?;
                    } else if self.dap.take_event("terminated").is_some() {
                        self.on_terminated();
                    }
                }
            }
            (Op::Continue, View::Stopped(i)) => {
                self.v.resumes += 1;
                self.dap.request("continue", json!({"threadId": 1}))?;
                self.begin_free_run(i as i64);
            }
            (Op::Next, View::Running)
            | (Op::StepIn, View::Running)
            | (Op::StepOut, View::Running) => {
                // A step request while the machine runs freely ("any timing of client requests"): where it
                // ends up is not specified, but it must end in a consistent stop. The instructions executed by
                // the step itself ignore breakpoints by design, so this run is not judged for run-overs.
                self.v.steps_while_running += 1;
                let cmd = match op {
                    Op::Next => "next",
                    Op::StepIn => "stepIn",
                    _ => "stepOut",
                };
                self.pause_sent = true;
                self.run_from = None;
                let r = self.dap.request(cmd, json!({"threadId": 1}))?;
                if r.get("success").and_then(|s| s.as_bool()) == Some(true) {
                    if self
                        .dap
                        .wait_event("stopped", Duration::from_secs(5))
                        .is_some()
                    {
                        self.on_stopped(None)?;
                    } else if self.dap.take_event("terminated").is_some() {
                        self.on_terminated();
                    }
                }
            }
            (Op::StepOut, View::Stopped(i)) if self.reference.trace[i].return_to.is_none() => {
                // not inside a subroutine: the property does not say what stepOut means here
            }
            (Op::Next, View::Stopped(i))
            | (Op::StepIn, View::Stopped(i))
            | (Op::StepOut, View::Stopped(i)) => {
                self.v.steps += 1;
                while self.dap.take_event("stopped").is_some() {}
                let cmd = match op {
                    Op::Next => "next",
                    Op::StepIn => "stepIn",
                    _ => "stepOut",
                };
                let exp = self.expected_after(op, i);
                let r = self.dap.request(cmd, json!({"threadId": 1}))?;
                if r.get("success").and_then(|s| s.as_bool()) == Some(true) {
                    let _ = self.dap.wait_event("stopped", Duration::from_secs(5));
                    self.on_stopped(exp)?;
                }
            }
            (Op::StackTrace, View::Stopped(i)) => self.check_stack_trace(i)?,
            (Op::StackTrace, _) => {
                let _ = self.dap.request("stackTrace", json!({"threadId": 1}))?;
            }
            (Op::Scopes, _) => {
                let _ = self.dap.request("scopes", json!({"frameId": 1}))?;
            }
            (Op::Threads, _) => {
                let _ = self.dap.request("threads", Value::Null)?;
            }
            (Op::Vars(1), View::Stopped(i)) => {
                self.query_registers(Some(i))?;
            }
            (Op::Vars(1), View::Running) => {
                let _ = self.query_registers(None)?;
            }
            (Op::Vars(2), View::Stopped(i)) => {
                let r = self
                    .dap
                    .request("variables", json!({"variablesReference": 2}))?;
                let f = self.reference.trace[i].flags;
                for (name, bit) in [
                    ("N - Negative", 128u8),
                    ("V - Overflow", 64),
                    ("Z - Zero", 2),
                    ("C - Carry", 1),
                ] {
                    self.count("flag_values");
                    let want = if f & bit != 0 { "true" } else { "false" };
                    if var_value(&r, name).as_deref() != Some(want) {
                        self.fail("wrong_flag", "wrong_flag", format!("flag '{}' reported {:?}, the halted machine (instruction #{}) has {}", name, var_value(&r, name), i, want));
                    }
                }
            }
            (Op::Vars(3), View::Stopped(i)) => {
                let r = self.dap.request("variables", json!({"variablesReference": 3}))?;
                let pc = self.reference.trace[i].pc;
                if let (Some(want), Some(got)) = (self.expected_marker(pc), var_value(&r, "marker")) {
                    self.count("local_marker");
                    if got != want.to_string() {
                        self.fail("wrong_scope", "wrong_scope:locals", format!("the locals of the halted machine (instruction #{}, pc ${:04x}) show marker = {}, the scope that instruction was written in has marker = {}", i, pc, got, want));
                    }
                }
            }
            (Op::Vars(n), _) => {
                let _ = self.dap.request("variables", json!({"variablesReference": n}))?;
            }
            (Op::Evaluate(e), View::Stopped(i)) => {
                let r = self.dap.request("evaluate", json!({"expression": e}))?;
                let t = self.reference.trace[i].clone();
                let want: Option<i64> = match e.as_str() {
                    "cpu.a" => Some(t.a as i64),
                    "cpu.x" => Some(t.x as i64),
                    "cpu.y" => Some(t.y as i64),
                    "cpu.a + cpu.x" => Some(t.a as i64 + t.x as i64),
                    "cpu.flags.zero" => Some((t.flags & 2) as i64),
                    "cpu.flags.carry" => Some((t.flags & 1) as i64),
                    "marker" => self.expected_marker(t.pc),
                    "marker + cpu.x" => self.expected_marker(t.pc).map(|m| m + t.x as i64),
                    _ => None,
                };
                if let (Some(w), true) = (
                    want,
                    r.get("success").and_then(|s| s.as_bool()) == Some(true),
                ) {
                    let got = r
                        .get("body")
                        .and_then(|b| b.get("result"))
                        .and_then(|x| x.as_str())
                        .map(|s| s.to_string());
                    self.count("evaluate_values");
                    if got.as_deref() != Some(w.to_string().as_str()) {
                        self.fail("wrong_evaluate", "wrong_evaluate", format!("evaluate '{}' returned {:?}, the halted machine (instruction #{}) gives {}", e, got, i, w));
                    }
                }
            }
            (Op::Evaluate(e), _) => {
                let _ = self.dap.request("evaluate", json!({"expression": e}))?;
            }
            (Op::Pipelined(cmds), view)
                if view == View::Running || matches!(view, View::Stopped(_)) =>
            {
                // A client that does not wait: the requests are on the wire before any of them is answered. Which
                // of them the session handles before the machine's own events is up to the scheduler; whatever the
                // order, the LAST run-state event the client receives must describe the machine: after `stopped`
                // it is halted. (A run that contains such a burst is not judged for run-overs and stop causes.)
                self.v.pipelined += 1;
                while self.dap.take_event("stopped").is_some() {}
                while self.dap.take_event("continued").is_some() {}
                let mut seqs = vec![];
                for c in cmds {
                    self.dap.send_only(c, json!({"threadId": 1}))?;
                    seqs.push(self.dap.last_seq());
                }
                // every request answered, then the events they caused (the session sends them right after
                // the response or, for machine events, within one turn of its loop)
                self.dap.await_responses(&seqs)?;
                self.run_from = None;
                self.pause_sent = true;
                // Every request handler has put the machine events it causes (Running -> Stopped, Stopped ->
                // Running) into the session's machine-event channel before its response was written. The session
                // turns them into DAP events in later turns of its loop, where it picks at random among the ready
                // channels. 48 further request/response round trips are 48 such turns with the event channel ready
                // in each: the chance that one of those events is still waiting afterwards is 2^-48 - no clock
                // is involved. (Stops the machine thread causes itself, e.g. a breakpoint, may of course still follow.)
                for _ in 0..48 {
                    self.dap.request("threads", Value::Null)?;
                }
                if self.dap.take_event("terminated").is_some() {
                    self.v.terminated = true;
                    self.view = View::Terminated;
                    return Ok(());
                }
                let last = self
                    .dap
                    .pending_events
                    .iter()
                    .rev()
                    .filter_map(|e| e.get("event").and_then(|n| n.as_str()))
                    .find(|n| *n == "stopped" || *n == "continued")
                    .map(|n| n.to_string());
                while self.dap.take_event("stopped").is_some() {}
                while self.dap.take_event("continued").is_some() {}
                match last.as_deref() {
                    Some("stopped") => {
                        self.count("last_event_stopped_after_burst");
                        self.force_second_look = true;
                        self.on_stopped(None)?;
                    }
                    // `continued`, or no event at all (yet): the client claims nothing about the machine
                    _ => self.view = View::Running,
                }
            }
            (Op::ConfigurationDoneAgain, _) => {
                // whatever the answer: the machine stays as it is (a stop is still a stop - later operations check it)
                let _ = self.dap.request("configurationDone", Value::Null)?;
            }
            (Op::SetVariable(name, text), View::Stopped(i)) => {
                let r = self.dap.request(
                    "setVariable",
                    json!({"variablesReference": 1, "name": name, "value": text}),
                )?;
                let accepted = r.get("success").and_then(|s| s.as_bool()) == Some(true);
                let value = r
                    .get("body")
                    .and_then(|b| b.get("value"))
                    .and_then(|x| x.as_str())
                    .and_then(|s| s.parse::<u8>().ok());
                if let (true, Some(value)) = (accepted, value) {
                    self.v.set_variables += 1;
                    // the run the machine is on from here: the same program with this write applied at this position
                    let cyc = self.reference.trace[i].cycles;
                    let mut ov = self.reference.overrides.clone();
                    ov.push((cyc, name.clone(), value));
                    let program = self.case.program.clone();
                    let path = self.path.clone();
                    let lib = self.case.lib.clone();
                    let mut nr = build_reference_with(&program, lib.as_deref(), &path, &ov);
                    if !nr.ok || nr.index_of_cycles(cyc) != Some(i) {
                        // e.g. the modified run does not end within the trace budget: nothing to compare with any more
                        self.v.notes.push(format!(
                            "reference after setVariable unavailable: {}",
                            nr.error
                        ));
                        self.view = View::Unknown;
                        return Ok(());
                    }
                    nr.bp_ranges = std::mem::take(&mut self.reference.bp_ranges);
                    self.reference = nr;
                    // the halted machine shows the new value and did not move
                    self.query_registers(Some(i))?;
                }
            }
            (Op::SetBreakpoints(_), view) | (Op::SetBreakpointsIn(_, _), view) => {
                let (file, plain) = match op {
                    Op::SetBreakpointsIn(f, b) => (*f as usize, b.clone()),
                    Op::SetBreakpoints(b) => (0usize, b.clone()),
                    _ => unreachable!(),
                };
                let source_path = if file == 0 {
                    self.path.clone()
                } else {
                    lib_path_of(&self.case.program)
                };
                // keys of this source's breakpoints; the other source's breakpoints stay as they are
                let keys: Vec<(usize, Option<usize>)> = plain
                    .iter()
                    .map(|(l, c)| (l + LIB_BASE * file, *c))
                    .collect();
                let lines: Vec<Value> = plain
                    .iter()
                    .map(|(l, c)| match c {
                        Some(c) => json!({"line": self.line_out(*l), "column": if self.case.lines_start_at_1 { c + 1 } else { *c }}),
                        None => json!({"line": self.line_out(*l)}),
                    })
                    .collect();
                let r = self.dap.request(
                    "setBreakpoints",
                    json!({"source": {"path": source_path}, "breakpoints": lines}),
                )?;
                if r.get("success").and_then(|s| s.as_bool()) == Some(true) {
                    let in_this_file =
                        |b: &(usize, Option<usize>)| (b.0 >= LIB_BASE) == (file == 1);
                    let mut bps: Vec<(usize, Option<usize>)> = self
                        .active_bps
                        .iter()
                        .filter(|b| !in_this_file(b))
                        .cloned()
                        .collect();
                    bps.extend(keys.iter().cloned());
                    self.active_bps = bps.clone();
                    if view == View::Running {
                        self.v.bp_changes_while_running += 1;
                        // only breakpoints that stay for the whole run are judged from its start
                        let keep: Vec<_> = self
                            .run_bps_throughout
                            .iter()
                            .filter(|b| bps.contains(b))
                            .cloned()
                            .collect();
                        self.run_bps_throughout = keep;
                        // breakpoints added earlier in this run and now removed again are no longer judged
                        // (the moment of their removal relative to the machine's position is unknown)
                        self.run_bps_added.retain(|(b, _)| bps.contains(b));
                        let since = self.query_registers(None)?;
                        for b in &bps {
                            if !self.run_bps_throughout.contains(b)
                                && !self.run_bps_added.iter().any(|(x, _)| x == b)
                            {
                                self.run_bps_added.push((*b, since));
                            }
                            if !self.run_bps_ever.contains(b) {
                                self.run_bps_ever.push(*b);
                            }
                        }
                    }
                }
            }
            _ => {}
        }
        Ok(())
    }
}

pub fn scenario(case: &Case, slot: &Arc<StdMutex<Option<Verdict>>>) {
    let path = format!("{}/main.asm", WS);
    let reference = build_reference(&case.program, case.lib.as_deref(), &path);
    let mut verdict = Verdict {
        trace_len: reference.trace.len(),
        ..Default::default()
    };
    if !reference.ok {
        verdict
            .notes
            .push(format!("reference run failed: {}", reference.error));
        *slot.lock().unwrap() = Some(verdict);
        panic!("{} no reference", ABORT_MARKER);
    }
    let (w, r) = pipe::create();
    let _main = shuttle::thread::Builder::new()
        .name("main".into())
        .spawn(move || {
            let _ = std::panic::catch_unwind(|| {
                let args = <LspArgs as argh::FromArgs>::from_args(&["lsp"], &[]).expect("args");
                lsp_command(&args)
            });
        })
        .expect("spawn main");
    let mut lsp = LspClient::new(w, r);
    let setup = (|| -> Result<DapClient, ClientErr> {
        lsp.initialize()?;
        lsp.did_open(&path, &case.program)?;
        if case.prelude != 0 && case.prelude != 4 {
            // An earlier session with a breakpoint on EVERY line: whatever survives it (breakpoints, a machine
            // thread, a stale position) would show in the judged session.
            let mut p = DapClient::connect(PORT, 400).ok_or(ClientErr::Closed)?;
            p.request("initialize", json!({"clientID": "sim-prelude", "linesStartAt1": false, "columnsStartAt1": false}))?;
            p.request(
                "launch",
                json!({"workspace": WS, "testRunner": {"testCaseName": "t"}}),
            )?;
            let all: Vec<Value> = (0..case.program.lines().count())
                .map(|l| json!({ "line": l }))
                .collect();
            p.request(
                "setBreakpoints",
                json!({"source": {"path": path}, "breakpoints": all}),
            )?;
            p.request("configurationDone", Value::Null)?;
            let _ = p.wait_event("stopped", Duration::from_millis(300));
            match case.prelude {
                1 => {
                    let _ = p.request("disconnect", json!({}));
                }
                2 => p.close(),
                _ => {
                    let _ = p.request("continue", json!({"threadId": 1}));
                    let _ = p.send_only("disconnect", json!({}));
                }
            }
            clock::sleep(Duration::from_millis(5));
        }
        let mut c = DapClient::connect(PORT, 400).ok_or(ClientErr::Closed)?;
        if case.omit_start_flags {
            c.request("initialize", json!({"clientID": "sim"}))?;
        } else {
            c.request("initialize", json!({"clientID": "sim", "linesStartAt1": case.lines_start_at_1, "columnsStartAt1": case.lines_start_at_1}))?;
        }
        if case.prelude == 4 {
            // "Restart debugging" after an edit: the same connection first debugs an OLDER version of the program (the
            // test body three instructions longer at its start: every line and every address of what follows differs),
            // with a breakpoint on every line; then the editor sends the real text and launches again. Whatever the
            // session keeps from the first machine - source map, symbols, memory - is wrong for the second.
            let older = case.program.replacen(
                ".test \"t\" {\n",
                ".test \"t\" {\n    nop\n    nop\n    lda #$5a\n",
                1,
            );
            lsp.did_change(&path, &older)?;
            lsp.request("textDocument/documentSymbol", json!({"textDocument": {"uri": format!("file://{}", path)}}))?;
            c.request("launch", json!({"workspace": WS, "testRunner": {"testCaseName": "t"}}))?;
            let all: Vec<Value> = (0..older.lines().count()).map(|l| json!({ "line": l })).collect();
            c.request("setBreakpoints", json!({"source": {"path": path}, "breakpoints": all}))?;
            c.request("configurationDone", Value::Null)?;
            let _ = c.wait_event("stopped", Duration::from_millis(300));
            let _ = c.request("stepIn", json!({"threadId": 1}));
            let _ = c.wait_event("stopped", Duration::from_millis(300));
            // the protocol replaces the breakpoints of a source as a whole: the second session starts without any
            c.request("setBreakpoints", json!({"source": {"path": path}, "breakpoints": []}))?;
            lsp.did_change(&path, &case.program)?;
            // (the edit travels on another connection than the launch: the editor has seen the server react to it -
            // here, answer a request sent after it - before the user restarts the debugger)
            let uri = format!("file://{}", path);
            lsp.request("textDocument/documentSymbol", json!({"textDocument": {"uri": uri}}))?;
        }
        let l = c.request(
            "launch",
            json!({"workspace": WS, "testRunner": {"testCaseName": "t"}}),
        )?;
        if l.get("success").and_then(|s| s.as_bool()) != Some(true) {
            return Err(ClientErr::Io(format!("launch failed: {}", l)));
        }
        if case.prelude == 4 {
            // events of the first machine that were still on their way
            clock::sleep(Duration::from_millis(120));
            c.drain();
            c.pending_events.clear();
        }
        Ok(c)
    })();
    let dap = match setup {
        Ok(c) => c,
        Err(e) => {
            verdict.notes.push(format!("setup failed: {:?}", e));
            *slot.lock().unwrap() = Some(verdict);
            panic!("{} setup failed", ABORT_MARKER);
        }
    };
    verdict.setup_ok = true;
    let mut s = Session {
        case,
        reference,
        dap,
        v: verdict,
        view: View::Unknown,
        active_bps: vec![],
        run_from: None,
        run_bps_throughout: vec![],
        run_bps_ever: vec![],
        run_bps_added: vec![],
        pause_sent: false,
        force_second_look: false,
        path: path.clone(),
    };
    let run = (|| -> Result<(), ClientErr> {
        // breakpoints before the machine starts
        s.view = View::Stopped(0);
        s.apply_op(&Op::SetBreakpoints(case.initial_bps.clone()))?;
        s.v.ops_done = 0;
        // an impatient front end: one session in five sends `continue` (and sometimes asks for the threads) while the
        // machine is still launching; the adapter ignores it, and nothing of it may survive into the run
        match rng::derive(case.seed, "c19.early_continue", 0) % 10 {
            0 => {
                s.dap.request("continue", json!({"threadId": 1}))?;
            }
            1 => {
                s.dap.request("threads", Value::Null)?;
                s.dap.request("continue", json!({"threadId": 1}))?;
                s.dap.request("continue", json!({"threadId": 1}))?;
            }
            _ => {}
        }
        s.dap.request("configurationDone", Value::Null)?;
        // launch: free run from before the first instruction (instruction #0 may itself be a breakpoint)
        s.begin_free_run(-1);
        for op in &case.ops {
            if s.v.found.is_some() || s.dap.dead {
                break;
            }
            s.apply_op(op)?;
        }
        Ok(())
    })();
    if let Err(e) = run {
        s.v.notes
            .push(format!("client script ended early: {:?}", e));
    }
    if case.end_with_drop {
        s.dap.close();
    } else if !s.dap.dead {
        let _ = s.dap.send_only("disconnect", json!({}));
    }
    clock::sleep(Duration::from_millis(5));
    let v = s.v.clone();
    *slot.lock().unwrap() = Some(v);
    panic!("{} scenario over", ABORT_MARKER);
}

// ---------------------------------------------------------------------------------------
// Driver
// ---------------------------------------------------------------------------------------

pub struct RunResult {
    pub found: Option<Found>,
    pub inconclusive: bool,
    pub verdict: Option<Verdict>,
    pub nontrivial: bool,
    pub trace: u64,
    pub steps: u64,
    pub switches: u64,
    pub sim_us: u64,
    pub net: NetStats,
    pub probes: BTreeMap<&'static str, u64>,
    pub history: Vec<HistEv>,
    pub max_runnable: usize,
    pub panic_message: String,
    pub recorded: Vec<u32>,
}

fn short_loc(loc: &str) -> String {
    let l = loc.trim_start_matches("/repo/");
    if let Some(i) = l.find("/registry/src/") {
        let rest = &l[i + 14..];
        return rest.splitn(2, '/').nth(1).unwrap_or(rest).to_string();
    }
    l.to_string()
}

fn sim_disk(case: &Case) -> SimDisk {
    let mut d = SimDisk::new();
    d.add_dir(WS);
    d.add_file(
        format!("{}/mos.toml", WS),
        b"[build]\nentry = \"main.asm\"\n".to_vec(),
    );
    d.add_file(format!("{}/main.asm", WS), case.program.as_bytes().to_vec());
    if let Some(lib) = &case.lib {
        d.add_file(lib_path_of(&case.program), lib.as_bytes().to_vec());
    }
    d
}

pub fn run_case(case: &Case) -> RunResult {
    let c2 = case.clone();
    let out = run_execution(
        case.seed,
        case.entropy_seed,
        sim_disk(case),
        &case.knobs,
        move |slot| scenario(&c2, slot),
    );
    let verdict = out.result.clone();
    let mut found = None;
    let mut inconclusive = false;
    match (&out.panic, &verdict) {
        (Some(p), Some(v)) if p.message.contains(ABORT_MARKER) => {
            if let Some((class, sig, msg)) = &v.found {
                found = Some(Found {
                    class: class.clone(),
                    sig: sig.clone(),
                    message: msg.clone(),
                });
            }
        }
        (Some(p), _) => {
            if p.message.contains("max_steps") {
                inconclusive = true;
            } else if p.message.starts_with("deadlock") {
                found = Some(Found {
                    class: "deadlock".into(),
                    sig: "deadlock".into(),
                    message: p.message.chars().take(600).collect(),
                });
            } else {
                found = Some(Found {
                    class: "thread_panic".into(),
                    sig: format!("thread_panic@{}", short_loc(&p.location)),
                    message: format!(
                        "a thread of the debug adapter panicked: {} at {}",
                        p.message.chars().take(400).collect::<String>(),
                        short_loc(&p.location)
                    ),
                });
            }
        }
        (None, Some(v)) => {
            if let Some((class, sig, msg)) = &v.found {
                found = Some(Found {
                    class: class.clone(),
                    sig: sig.clone(),
                    message: msg.clone(),
                });
            }
        }
        (None, None) => inconclusive = true,
    }
    let nontrivial = found.is_none()
        && !inconclusive
        && verdict
            .as_ref()
            .map(|v| v.setup_ok && v.stops_observed >= 1)
            .unwrap_or(false)
        && out.sched.context_switches >= 10
        && out.sched.max_runnable >= 3;
    RunResult {
        found,
        inconclusive,
        verdict,
        nontrivial,
        trace: out.sched.switch_hash,
        steps: out.sched.decisions,
        switches: out.sched.context_switches,
        sim_us: out.sim_time_us,
        net: out.net,
        probes: out.probes,
        history: out.history,
        max_runnable: out.sched.max_runnable,
        panic_message: out.panic.map(|p| p.message).unwrap_or_default(),
        recorded: out.recorded,
    }
}

fn history_json(h: &[HistEv], max: usize) -> Value {
    Value::Array(
        h.iter()
            .take(max)
            .map(|e| {
                let d = e.data.to_string();
                json!({"seq": e.seq, "t_us": e.t_us, "who": e.who, "what": e.what, "data": if d.len() > 400 { json!(format!("{}...", &d[..400])) } else { e.data.clone() }})
            })
            .collect(),
    )
}

/// ddmin over the client script (the schedule is re-searched for each candidate
/// with a few seeds, because a schedule is not portable across workloads).
fn minimise(case: &Case, sig: &str) -> Case {
    let reproduces = |c: &Case| -> Option<Case> {
        for j in 0..12u64 {
            let mut c2 = c.clone();
            if j > 0 {
                c2.seed = rng::derive(case.seed, "c19.min", j);
            }
            if matches!(run_case(&c2).found, Some(f) if f.sig == sig) {
                return Some(c2);
            }
        }
        None
    };
    let mut best = match reproduces(case) {
        Some(c) => c,
        None => return case.clone(),
    };
    let ops = best.ops.clone();
    let base = best.clone();
    let mut last_ok = best.clone();
    let kept = ddmin(ops, &mut |o: &[Op]| {
        let mut c = base.clone();
        c.ops = o.to_vec();
        match reproduces(&c) {
            Some(c2) => {
                last_ok = c2;
                true
            }
            None => false,
        }
    });
    if last_ok.ops == kept {
        best = last_ok;
    }
    // drop initial breakpoints
    if !best.initial_bps.is_empty() {
        let mut c = best.clone();
        c.initial_bps.clear();
        if let Some(c2) = reproduces(&c) {
            best = c2;
        }
    }
    // simplest knobs
    let mut c = best.clone();
    c.knobs.net = mos_simrt::net::NetKnobs::default();
    if let Some(c2) = reproduces(&c) {
        best = c2;
    }
    best
}

fn replay(cli: &Cli, path: &Path) -> i32 {
    let case = match read_json(path).ok().and_then(|v| Case::from_json(&v)) {
        Some(c) => c,
        None => {
            eprintln!("harness error: malformed replay file");
            return EXIT_HARNESS;
        }
    };
    let expect_abort = read_json(path).ok().and_then(|v| v.get("expect_abort").and_then(|b| b.as_bool())).unwrap_or(false);
    if expect_abort && !cli.opts.contains_key("inner") {
        let cell = String::from("session");
        let (aborted, first_panic) = replay_in_child(cli, path);
        let rr = ReplayResult {
            violated: aborted,
            sig: if aborted { format!("process_abort:{}", cell) } else { "-".into() },
            class: if aborted { "process_abort".into() } else { "-".into() },
            message: if aborted {
                format!("{}: the simulated process died of SIGABRT; first panic: {}", cell, first_panic)
            } else {
                "the execution did not abort its process".into()
            },
            log_hash: 0,
        };
        return print_replay_result(PROP, &rr);
    }
    let silencer = StderrSilencer::new();
    let r = run_case(&case);
    drop(silencer);
    if cli.opts.contains_key("dump") {
        println!(
            "{}",
            serde_json::to_string_pretty(&history_json(&r.history, 1000)).unwrap()
        );
        println!("verdict: {:?}", r.verdict);
        println!("panic: {}", r.panic_message);
    }
    let rr = match r.found {
        Some(f) => ReplayResult {
            violated: true,
            sig: f.sig,
            class: f.class,
            message: f.message,
            log_hash: r.trace,
        },
        None => ReplayResult {
            violated: false,
            sig: "-".into(),
            class: "-".into(),
            message: format!(
                "inconclusive={} verdict={:?}",
                r.inconclusive,
                r.verdict.map(|v| (v.stops_observed, v.notes))
            ),
            log_hash: r.trace,
        },
    };
    print_replay_result(PROP, &rr)
}

#[derive(Default, serde::Serialize, serde::Deserialize)]
struct Acc {
    runs: u64,
    inconclusive: u64,
    setup_failed: u64,
    steps: u64,
    switches: u64,
    sim_us: u64,
    nontrivial: BTreeSet<u64>,
    traces: BTreeSet<u64>,
    checks: BTreeMap<String, u64>,
    counters: BTreeMap<String, u64>,
    net: BTreeMap<String, u64>,
    probes: BTreeMap<String, u64>,
    violations: Vec<Violation>,
    sigs: BTreeMap<String, u64>,
    digests: Vec<(u64, u64)>,
    samples: Vec<(u64, Value)>,
}

/// executions per child process (shuttle leaks ~250 KB per execution that ends by a panic)
const PROC_CHUNK: u64 = 6_000;

pub fn main(cli: &Cli) -> i32 {
    if let Some(p) = &cli.replay {
        return replay(cli, p);
    }
    let n = cli.runs.unwrap_or(match cli.tier {
        Tier::Quick => 3_000,
        Tier::Thorough => 300_000,
    });
    let seed = cli.seed;
    let determinism = cli.mode.as_deref() == Some("determinism");
    let mut ev = Evidence::new(PROP, cli);
    let silencer = StderrSilencer::new();
    let folded = par_fold_chunked(
        cli,
        n,
        PROC_CHUNK,
        Acc::default,
        |acc: &mut Acc, k: u64| {
            let case = gen_case(seed, k);
            let r = run_case(&case);
            acc.runs += 1;
            if r.inconclusive {
                acc.inconclusive += 1;
            }
            acc.steps += r.steps;
            acc.switches += r.switches;
            acc.sim_us += r.sim_us;
            acc.traces.insert(r.trace);
            if r.nontrivial {
                acc.nontrivial.insert(r.trace);
            }
            if let Some(v) = &r.verdict {
                if !v.setup_ok {
                    acc.setup_failed += 1;
                }
                for (k2, c) in &v.checks {
                    *acc.checks.entry(k2.clone()).or_insert(0) += c;
                }
                for (k2, c) in [
                    ("stops_observed", v.stops_observed),
                    ("pauses", v.pauses),
                    ("steps", v.steps),
                    ("resumes", v.resumes),
                    (
                        "breakpoint_changes_while_running",
                        v.bp_changes_while_running,
                    ),
                    ("steps_while_running", v.steps_while_running),
                    ("terminated", v.terminated as u64),
                    ("client_ops", v.ops_done),
                    ("reference_instructions", v.trace_len as u64),
                    ("set_variables_accepted", v.set_variables),
                    ("pipelined_bursts", v.pipelined),
                ] {
                    *acc.counters.entry(k2.to_string()).or_insert(0) += c;
                }
            }
            for (k2, v) in [
                ("short_reads", r.net.short_reads),
                ("short_writes", r.net.short_writes),
                ("blocked_writes", r.net.blocked_writes),
                ("fin", r.net.fin),
                ("rst", r.net.rst),
            ] {
                *acc.net.entry(k2.to_string()).or_insert(0) += v;
            }
            for (k2, v) in &r.probes {
                *acc.probes.entry(k2.to_string()).or_insert(0) += v;
            }
            let mut dg = r.trace;
            dg = rng::fnv64_extend(dg, &r.steps.to_le_bytes());
            dg = rng::fnv64_extend(
                dg,
                format!(
                    "{:?}",
                    r.verdict.as_ref().map(|v| (
                        v.stops_observed,
                        v.steps,
                        v.pauses,
                        v.ops_done,
                        &v.checks
                    ))
                )
                .as_bytes(),
            );
            if let Some(f) = &r.found {
                dg = rng::fnv64_extend(dg, f.sig.as_bytes());
            }
            acc.digests.push((k, dg));
            if acc.samples.len() < 2 && r.found.is_none() && r.nontrivial {
                acc.samples.push((k, json!({"run": k, "case": case.to_json(), "history": history_json(&r.history, 80)})));
            }
            if let Some(f) = r.found {
                *acc.sigs.entry(f.sig.clone()).or_insert(0) += 1;
                if !determinism && !acc.violations.iter().any(|v| v.sig == f.sig) {
                    let mut m = minimise(&case, &f.sig);
                    let seed_only = m.to_json();
                    // the schedule itself: recorded, replayed, reduced (first two signatures per worker)
                    let mut sched_info = Value::Null;
                    if acc.violations.len() < 2 {
                        let base = m.clone();
                        if let Some((k2, info)) = minimise_schedule(&m.knobs, &f.sig, 100, &|kn: &ExecKnobs| {
                            let mut c = base.clone();
                            c.knobs = kn.clone();
                            let r = run_case(&c);
                            (r.found.map(|x| x.sig), r.recorded, r.switches)
                        }) {
                            m.knobs = k2;
                            sched_info = info;
                        }
                    }
                    let mf = run_case(&m)
                        .found
                        .filter(|x| x.sig == f.sig)
                        .unwrap_or(f.clone());
                    let mut replay_json = m.to_json();
                    if !sched_info.is_null() {
                        replay_json["schedule_minimisation"] = sched_info;
                        replay_json["seed_only_fallback"] = seed_only;
                    }
                    acc.violations.push(Violation {
                        property: PROP,
                        class: mf.class.clone(),
                        sig: mf.sig.clone(),
                        message: format!(
                            "C19 run {} ({} client ops, minimised to {}): {}",
                            k,
                            case.ops.len(),
                            m.ops.len(),
                            mf.message
                        ),
                        run_index: k,
                        replay: replay_json,
                    });
                }
            }
        },
        |t: &mut Acc, a: Acc| {
            t.runs += a.runs;
            t.inconclusive += a.inconclusive;
            t.setup_failed += a.setup_failed;
            t.steps += a.steps;
            t.switches += a.switches;
            t.sim_us += a.sim_us;
            t.nontrivial.extend(a.nontrivial);
            t.traces.extend(a.traces);
            for (k, v) in a.checks {
                *t.checks.entry(k).or_insert(0) += v;
            }
            for (k, v) in a.counters {
                *t.counters.entry(k).or_insert(0) += v;
            }
            for (k, v) in a.net {
                *t.net.entry(k).or_insert(0) += v;
            }
            for (k, v) in a.probes {
                *t.probes.entry(k).or_insert(0) += v;
            }
            for (k, v) in a.sigs {
                *t.sigs.entry(k).or_insert(0) += v;
            }
            t.violations.extend(a.violations);
            t.digests.extend(a.digests);
            t.samples.extend(a.samples);
        },
    );
    drop(silencer);
    let mut acc = match folded {
        Ok(Some(a)) => a,
        Ok(None) => return EXIT_OK,
        Err(e) if e.starts_with("ABORT ") => {
            // An execution took its (child) process down with SIGABRT: a thread of the simulated process panicked and
            // a destructor that ran while it unwound panicked as well. Isolate the execution and report it.
            let mut it = e.split(' ').skip(1).filter_map(|x| x.parse::<u64>().ok());
            let (a, b) = (it.next().unwrap_or(0), it.next().unwrap_or(n));
            let k = match isolate_abort(cli, a, b) {
                Some(k) => k,
                None => {
                    eprintln!("harness error: a chunk process for executions {}..{} died of SIGABRT but no single execution does", a, b);
                    return EXIT_HARNESS;
                }
            };
            let case = gen_case(seed, k);
            let cell = String::from("session");
            let mut replay_json = case.to_json();
            replay_json["expect_abort"] = json!(true);
            ev.evaluations = k + 1;
            ev.rule = "batch cut short: an execution aborted its process; only that execution is reported".into();
            ev.samples = vec![json!({"run": k, "case": case.to_json()})];
            let v = Violation {
                property: PROP,
                class: "process_abort".into(),
                sig: format!("process_abort:{}", cell),
                message: format!("C19 run {}: {}: the simulated process died of SIGABRT - a thread panicked and a destructor that ran while it unwound panicked too (in the simulation a lock taken inside a destructor cannot be waited for while unwinding; the first panic is the defect - the replay prints it)", k, cell),
                run_index: k,
                replay: replay_json,
            };
            return conclude(cli, &mut ev, vec![v]);
        }
        Err(e) => {
            eprintln!("harness error: {}", e);
            return EXIT_HARNESS;
        }
    };
    acc.digests.sort();
    let mut batch = 0xcbf2_9ce4_8422_2325u64;
    for (k, h) in &acc.digests {
        batch = rng::fnv64_extend(batch, &k.to_le_bytes());
        batch = rng::fnv64_extend(batch, &h.to_le_bytes());
    }
    if determinism {
        println!(
            "DETERMINISM engine=threadsim/C19 runs={} batch_hash={:016x}",
            acc.runs, batch
        );
        return EXIT_OK;
    }
    acc.samples.sort_by_key(|(k, _)| *k);
    acc.samples.truncate(3);
    ev.evaluations = acc.runs;
    ev.distinct_nontrivial = acc.nontrivial.len() as u64;
    ev.rule = format!(
        "{} executions of the full simulated `mos lsp` process with a DAP session on the emulated test machine: program from a grammar (straight-line code, counted loops, up to 2 subroutines, macro and .loop expansion, asserts/traces; <= {} instructions), 0-3 initial breakpoints, 6-40 client operations (wait for stopped, pause, continue, next, stepIn, stepOut, stackTrace, scopes, variables, evaluate, setBreakpoints, threads, setVariable of A/X/Y while halted - the reference run is then recomputed with that write applied at that position) with simulated delays from {{0, 1, 10, 49, 50, 51, 200 ms}}; the seed decides every interleaving of client, session, machine, poller, reader/writer and clock tasks, stream chunking and buffer sizes. Reference: the real TestRunner run sequentially; CYC identifies the true position. distinct = distinct hash of the sequence of tasks chosen at context switches; non-trivial = violation-free AND >= 1 stop observed AND >= 10 context switches AND >= 3 tasks runnable at once",
        n, MAX_TRACE
    );
    ev.samples = acc.samples.iter().map(|(_, v)| v.clone()).collect();
    if ev.samples.is_empty() {
        ev.samples.push(json!({"note": "no violation-free non-trivial execution in this batch", "case": gen_case(seed, 0).to_json()}));
    }
    ev.set("oracle_checks_evaluated", json!(acc.checks));
    ev.set("session_counters", json!(acc.counters));
    ev.set("inconclusive_step_budget", json!(acc.inconclusive));
    ev.set("setup_failed", json!(acc.setup_failed));
    ev.set("scheduling_decisions", json!(acc.steps));
    ev.set("context_switches", json!(acc.switches));
    ev.set("simulated_time_ms", json!(acc.sim_us / 1000));
    ev.set("distinct_interleavings", json!(acc.traces.len()));
    ev.set(
        "interleaving_measure",
        json!("distinct hashes of the sequence of tasks chosen at context switches"),
    );
    ev.set("fault_kinds_injected", json!(acc.net));
    ev.set("probes", json!(acc.probes));
    ev.set("violation_signatures_seen_in_batch", json!(acc.sigs));
    ev.set("batch_hash", json!(format!("{:016x}", batch)));
    ev.set("components", json!({
        "real": ["DebugSession loop incl. the 3-way Select and all request handlers", "Machine + poller thread", "TestRunnerAdapter + machine thread", "TestRunner + emulator_6502", "DebugConnection reader/writer threads and framing", "LspServer (config, codegen, parsing source for launch)", "lsp-server main loop and IO threads"],
        "simulated": ["OS scheduler", "clock/timers", "TCP loopback with short reads/writes and finite buffers", "stdio pipes", "crossbeam-channel subset", "disk", "OS entropy", "DAP and LSP clients"],
        "reference_model": "the real TestRunner executed sequentially on the same program (trace of cycles, pc, registers, flags; call stack for stepOut targets; source map for frames and breakpoint ranges)",
        "not_run": ["VICE adapter"]
    }));
    ev.assumptions = vec![
        "subroutines return with rts to their caller (the reference tracks activations by counting jsr and rts); pushes inside a subroutine are balanced before it returns".into(),
        "a breakpoint set while the machine runs is judged only for instructions after a position observed after the setBreakpoints response".into(),
        "fairness: no runnable thread is stalled for more than 1 s of simulated time".into(),
    ];
    let mut code = conclude(cli, &mut ev, acc.violations);
    if (acc.inconclusive + acc.setup_failed) * 20 > acc.runs && code == EXIT_OK {
        eprintln!(
            "harness error: {} of {} executions inconclusive or without a session",
            acc.inconclusive + acc.setup_failed,
            acc.runs
        );
        code = EXIT_HARNESS;
    }
    code
}
