//! threadsim (C19, C20): the real `mos lsp` process -- LSP main loop, stdio IO
//! threads, debug-server thread, DAP session, IO threads, machine thread,
//! poller -- runs as shuttle tasks under a scheduler the harness owns
//! (`mos_simrt::sched::SimScheduler`), with simulated time, sockets, pipes and
//! disk. One execution per fresh OS thread; one seed decides everything.

pub mod c19;
pub mod c20;
pub mod clients;

use super::common::*;
use mos_simrt::disk::SimDisk;
use mos_simrt::net::{NetKnobs, NetStats};
use mos_simrt::panics::PanicInfo;
use mos_simrt::sched::{SchedKnobs, SchedStats, SimScheduler};
use mos_simrt::shuttle;
use mos_simrt::{chan, clock, disk, entropy, env, net, panics, pipe, probe};
use serde_json::{json, Value};
use std::cell::RefCell;
use std::collections::BTreeMap;
use std::path::PathBuf;
use std::sync::{Arc, Mutex as StdMutex};

pub const WS: &str = "/ws";
pub const ABORT_MARKER: &str = "VERIF-ABORT";

#[derive(Clone, Debug)]
pub struct ExecKnobs {
    pub sched: SchedKnobs,
    pub net: NetKnobs,
    pub max_steps: usize,
    /// record the task chosen at every scheduling decision (never serialised)
    pub record_schedule: bool,
}

impl Default for ExecKnobs {
    fn default() -> Self {
        ExecKnobs {
            sched: SchedKnobs::default(),
            net: NetKnobs::default(),
            max_steps: 400_000,
            record_schedule: false,
        }
    }
}

impl ExecKnobs {
    pub fn to_json(&self) -> Value {
        let mut v = json!({
            "stay_bias": self.sched.stay_bias, "early_coin": self.sched.early_coin, "stall_bound_us": self.sched.stall_bound_us,
            "max_chunk": self.net.max_chunk, "buffer_cap": self.net.buffer_cap, "max_steps": self.max_steps,
        });
        if let Some(s) = &self.sched.schedule {
            // the minimised schedule: [[task id, consecutive decisions], ...]; decisions after its end follow
            // the default policy (stay on the current task, else the lowest runnable id, clock at quiescence)
            let segs: Vec<Value> = mos_simrt::sched::rle(s).iter().map(|(t, n)| json!([t, n])).collect();
            v["schedule"] = Value::Array(segs);
        }
        v
    }
    pub fn from_json(v: &Value) -> Option<ExecKnobs> {
        Some(ExecKnobs {
            sched: SchedKnobs {
                stay_bias: v.get("stay_bias")?.as_u64()? as u32,
                early_coin: v.get("early_coin")?.as_u64()? as u32,
                stall_bound_us: v.get("stall_bound_us")?.as_u64()?,
                schedule: match v.get("schedule").and_then(|s| s.as_array()) {
                    Some(a) => {
                        let mut segs = Vec::new();
                        for e in a {
                            segs.push((e.get(0)?.as_u64()? as u32, e.get(1)?.as_u64()? as u32));
                        }
                        Some(Arc::new(mos_simrt::sched::un_rle(&segs)))
                    }
                    None => None,
                },
            },
            net: NetKnobs {
                max_chunk: v.get("max_chunk")?.as_u64()? as usize,
                buffer_cap: v.get("buffer_cap")?.as_u64()? as usize,
            },
            max_steps: v.get("max_steps")?.as_u64()? as usize,
            record_schedule: false,
        })
    }
}

/// Protocol-visible history, stamped with a global event sequence number.
#[derive(Clone, Debug)]
pub struct HistEv {
    pub seq: u64,
    pub t_us: u64,
    pub who: &'static str,
    pub what: String,
    pub data: Value,
}

thread_local! {
    static HIST: RefCell<Vec<HistEv>> = const { RefCell::new(Vec::new()) };
}

pub fn hist(who: &'static str, what: &str, data: Value) {
    let t = clock::now_us();
    HIST.with(|h| {
        let mut h = h.borrow_mut();
        let seq = h.len() as u64;
        h.push(HistEv {
            seq,
            t_us: t,
            who,
            what: what.to_string(),
            data,
        });
    });
}

pub fn hist_len() -> usize {
    HIST.with(|h| h.borrow().len())
}

#[derive(Debug)]
pub struct ExecOutcome<R> {
    pub result: Option<R>,
    /// panic that ended the execution (task panic, deadlock, step budget)
    pub panic: Option<PanicInfo>,
    pub all_panics: Vec<PanicInfo>,
    pub sched: SchedStats,
    pub sim_time_us: u64,
    pub timers_fired: u64,
    pub quiescence_jumps: u64,
    pub early_firings: u64,
    pub net: NetStats,
    pub probes: BTreeMap<&'static str, u64>,
    pub history: Vec<HistEv>,
    pub disk_log: Vec<String>,
    /// task chosen at every decision, when `ExecKnobs::record_schedule` was set
    pub recorded: Vec<u32>,
}

/// One simulated process run = one shuttle execution on a fresh OS thread.
pub fn run_execution<R: Send + 'static>(
    seed: u64,
    entropy_seed: u64,
    sim_disk: SimDisk,
    knobs: &ExecKnobs,
    body: impl Fn(&Arc<StdMutex<Option<R>>>) + Send + Sync + 'static,
) -> ExecOutcome<R> {
    let knobs = knobs.clone();
    let out = fresh_thread(64 << 20, move || {
        entropy::set_seed(Some(entropy_seed));
        env::set_cwd(Some(PathBuf::from(WS)));
        disk::install(sim_disk);
        clock::reset();
        chan::reset();
        net::reset(knobs.net.clone());
        pipe::reset();
        probe::reset();
        mos_simrt::std_shim::sync::atomic::reset_process_globals();
        HIST.with(|h| h.borrow_mut().clear());
        let slot: Arc<StdMutex<Option<R>>> = Arc::new(StdMutex::new(None));
        let slot2 = slot.clone();
        let mut cfg = shuttle::Config::new();
        cfg.stack_size = 4 << 20;
        cfg.max_steps = shuttle::MaxSteps::FailAfter(knobs.max_steps);
        cfg.failure_persistence = shuttle::FailurePersistence::None;
        cfg.silence_warnings = true;
        mos_simrt::sched::set_recording(knobs.record_schedule);
        let sched = SimScheduler::new(seed, knobs.sched.clone());
        let runner = shuttle::Runner::new(sched, cfg);
        clock::set_active(true);
        let r = std::panic::catch_unwind(std::panic::AssertUnwindSafe(move || {
            runner.run(move || {
                clock::spawn_daemon();
                // the body stores its verdict in the slot; it may then abort the
                // execution by panicking with ABORT_MARKER (simulated process kill)
                body(&slot2);
                clock::stop_daemon();
            });
        }));
        clock::set_active(false);
        let all_panics = panics::peek();
        let panic = match r {
            Ok(_) => None,
            // the simulated process exit / kill is itself a panic of the root task; everything
            // after it is teardown noise (destructors of killed tasks touching dead primitives)
            Err(_) => all_panics
                .iter()
                .find(|p| p.message.contains(ABORT_MARKER))
                .or(all_panics.iter().find(|p| {
                    !p.message.contains("PoisonError") && !p.message.contains("AcquireError")
                }))
                .or(all_panics.first())
                .cloned()
                .or(Some(PanicInfo {
                    message: "unknown panic".into(),
                    location: "<unknown>".into(),
                })),
        };
        let (now, fired, _reg, _canc, qj, ef) = clock::stats();
        let d = disk::uninstall();
        let outcome = ExecOutcome {
            result: slot.lock().unwrap().take(),
            panic,
            all_panics,
            sched: mos_simrt::sched::take_stats(),
            sim_time_us: now,
            timers_fired: fired,
            quiescence_jumps: qj,
            early_firings: ef,
            net: net::stats(),
            probes: probe::take(),
            history: HIST.with(|h| std::mem::take(&mut *h.borrow_mut())),
            disk_log: d.map(|d| d.log).unwrap_or_default(),
            recorded: mos_simrt::sched::take_recording(),
        };
        mos_simrt::sched::set_recording(false);
        // drop simulator objects that still exist (they must not outlive the thread's TLS)
        net::reset(NetKnobs::default());
        pipe::reset();
        chan::reset();
        clock::reset();
        env::set_cwd(None);
        entropy::set_seed(None);
        outcome
    });
    match out {
        Ok(o) => o,
        Err(p) => ExecOutcome {
            result: None,
            panic: p.last().cloned().or(Some(PanicInfo {
                message: "harness thread died".into(),
                location: "<unknown>".into(),
            })),
            all_panics: p,
            sched: SchedStats::default(),
            sim_time_us: 0,
            timers_fired: 0,
            quiescence_jumps: 0,
            early_firings: 0,
            net: NetStats::default(),
            probes: BTreeMap::new(),
            history: vec![],
            disk_log: vec![],
            recorded: vec![],
        },
    }
}

/// Schedule minimisation. `run` executes a case with the given knobs and returns (violation
/// signature if any, recorded schedule). The violating execution is recorded, replayed from the
/// recording (must reproduce), then reduced while the same signature persists:
///  1. shortest prefix of the recording after which the fair default policy may take over
///     (binary search, the result is re-verified);
///  2. ddmin over the run-length segments of that prefix: removing a segment removes a context
///     switch (a preemption, or a task's whole turn); what no longer fits is skipped tolerantly
///     by the replay (see `SchedKnobs::schedule`).
/// At most `budget` executions. Returns the knobs carrying the minimised schedule and a
/// description of what was achieved, or None when the recording does not reproduce (the caller
/// keeps the seed-only replay file, which is exact by itself).
pub fn minimise_schedule(
    knobs: &ExecKnobs,
    sig: &str,
    budget: usize,
    run: &dyn Fn(&ExecKnobs) -> (Option<String>, Vec<u32>, u64),
) -> Option<(ExecKnobs, Value)> {
    let mut used = 0usize;
    let mut rec_knobs = knobs.clone();
    rec_knobs.sched.schedule = None;
    rec_knobs.record_schedule = true;
    let (s0, recorded, switches_before) = run(&rec_knobs);
    used += 1;
    // (executions with very long schedules - a 70 000-instruction subroutine is 4 million decisions - are left to
    // their seed: reducing them costs minutes per signature)
    if s0.as_deref() != Some(sig) || recorded.is_empty() || recorded.len() > 300_000 {
        return None;
    }
    let with = |sch: &[u32]| -> ExecKnobs {
        let mut k = knobs.clone();
        k.record_schedule = false;
        k.sched.schedule = Some(Arc::new(sch.to_vec()));
        k
    };
    let mut test = |sch: &[u32], used: &mut usize| -> Option<u64> {
        if *used >= budget {
            return None;
        }
        *used += 1;
        let (s, _, sw) = run(&with(sch));
        if s.as_deref() == Some(sig) {
            Some(sw)
        } else {
            None
        }
    };
    let mut switches_after = test(&recorded, &mut used)?;
    // 1. prefix
    let (mut lo, mut hi) = (0usize, recorded.len());
    while lo < hi {
        let mid = lo + (hi - lo) / 2;
        if test(&recorded[..mid], &mut used).is_some() {
            hi = mid;
        } else {
            lo = mid + 1;
        }
    }
    let mut best: Vec<u32> = recorded[..hi].to_vec();
    match test(&best, &mut used) {
        Some(sw) => switches_after = sw,
        None => best = recorded.clone(),
    }
    // 2. segments
    let segs = mos_simrt::sched::rle(&best);
    if segs.len() >= 2 {
        let kept = ddmin(segs, &mut |cand: &[(u32, u32)]| match test(&mos_simrt::sched::un_rle(cand), &mut used) {
            Some(sw) => {
                switches_after = sw;
                true
            }
            None => false,
        });
        let cand = mos_simrt::sched::un_rle(&kept);
        // ddmin's last accepted candidate is `kept`; verify once more outside the budget
        let (s, _, sw) = run(&with(&cand));
        if s.as_deref() == Some(sig) {
            best = cand;
            switches_after = sw;
        } else {
            let (_, _, sw) = run(&with(&best));
            switches_after = sw;
        }
    }
    let info = json!({
        "recorded_decisions": recorded.len(),
        "recorded_context_switches": switches_before,
        "minimised_decisions": best.len(),
        "minimised_segments": mos_simrt::sched::rle(&best).len(),
        "context_switches_of_the_minimised_execution": switches_after,
        "executions_spent": used,
        "how_to_read": "knobs.schedule = [[task id, consecutive decisions], ...]; after its end (and where an entry cannot be followed) the scheduler stays on the current task, moving to the next runnable task id when it yields or after 64 decisions; the clock daemon fires at quiescence",
    });
    Some((with(&best), info))
}

/// shuttle reports every panicking execution (including the simulated process
/// exit) with unconditional eprintln!s; silence fd 2 while a batch runs.
pub struct StderrSilencer {
    saved: i32,
}

extern "C" {
    fn dup(fd: i32) -> i32;
    fn dup2(a: i32, b: i32) -> i32;
    fn open(path: *const u8, flags: i32, ...) -> i32;
    fn close(fd: i32) -> i32;
}

impl StderrSilencer {
    pub fn new() -> StderrSilencer {
        if std::env::var("VERIF_KEEP_STDERR").is_ok() {
            return StderrSilencer { saved: -1 };
        }
        unsafe {
            let saved = dup(2);
            let null = open(b"/dev/null\0".as_ptr(), 1);
            if null >= 0 {
                dup2(null, 2);
                close(null);
            }
            StderrSilencer { saved }
        }
    }
}

impl Drop for StderrSilencer {
    fn drop(&mut self) {
        if self.saved >= 0 {
            unsafe {
                dup2(self.saved, 2);
                close(self.saved);
            }
        }
    }
}

pub fn main(cli: &Cli) -> i32 {
    match cli.target.as_str() {
        "C20" => c20::main(cli),
        "C19" => c19::main(cli),
        _ => EXIT_HARNESS,
    }
}
