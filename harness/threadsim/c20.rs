//! C20: shutdown is clean in every session state. The state x variant grid is
//! enumerated completely; interleavings, the moment the shutdown lands, client
//! delays and socket chunking are sampled by seed.

use super::clients::{DapClient, LspClient};
use super::*;
use crate::commands::{lsp_command, LspArgs};
use mos_simrt::rng::{self, Rng};
use mos_simrt::shuttle;
use std::collections::BTreeSet;
use std::time::Duration;

const PROP: &str = "C20";
pub const PORT: u16 = 6503;
pub const N_STATES: usize = 19;
pub const N_VARIANTS: usize = 8;

pub const STATE_NAMES: [&str; N_STATES] = [
    "S0_no_debugger",
    "S1_attached_idle",
    "S2_test_running",
    "S3_stopped_at_breakpoint",
    "S4_stopped_after_pause",
    "S5_disconnected",
    "S6_tcp_dropped",
    "S7_test_terminated",
    "S8_second_session_after_disconnect",
    "S9_connected_but_silent",
    "S10_dap_request_in_flight",
    "S11_pause_and_continue_before_configuration_done",
    "S12_test_running_project_without_mos_toml",
    "S13_awkward_requests_while_paused",
    "S14_debug_port_in_use_by_another_process",
    "S15_debugger_floods_without_reading",
    "S16_next_into_a_subroutine_that_never_returns",
    "S17_launch_in_flight_while_the_server_analyses_an_edit",
    "S18_run_without_debugging_a_test_that_never_ends_then_pause",
];
pub const VARIANT_NAMES: [&str; N_VARIANTS] = [
    "V1_shutdown_exit_close",
    "V2_shutdown_exit_pipe_open",
    "V3_pipe_closed_without_shutdown",
    "V4_shutdown_exit_withheld",
    "V5_dap_disconnect_before_shutdown",
    "V6_dap_disconnect_after_shutdown",
    "V7_debugger_attaches_between_shutdown_and_exit",
    "V8_client_dies_in_the_middle_of_a_message",
];

// (the assertion about memory is evaluated by the machine thread through the `ram` function the debugger registers)
const LONG_PROGRAM: &str = ".test \"t\" {\n    ldx #0\nouter:\n    ldy #0\ninner:\n    iny\n    .assert ram($20) == ram($20)\n    bne inner\n    inx\n    bne outer\n    brk\n}\n";
const ENDLESS_SUB_PROGRAM: &str =
    ".test \"t\" {\n    lda #1\n    jsr forever\n    brk\nforever:\n    jmp forever\n}\n";
const ENDLESS_MAIN_PROGRAM: &str = ".test \"t\" {\n    lda #1\nspin:\n    inx\n    jmp spin\n}\n";
const SHORT_PROGRAM: &str = ".test \"t\" {\n    lda #1\n    ldx #2\n    brk\n}\n";

#[derive(Clone, Debug)]
pub struct Case {
    pub state: usize,
    pub variant: usize,
    pub seed: u64,
    pub entropy_seed: u64,
    pub knobs: ExecKnobs,
    pub delay_us: u64,
}

impl Case {
    pub fn to_json(&self) -> Value {
        json!({
            "engine": "threadsim/C20", "state": self.state, "state_name": STATE_NAMES[self.state],
            "variant": self.variant, "variant_name": VARIANT_NAMES[self.variant],
            "sched_seed": format!("{:#x}", self.seed), "entropy_seed": format!("{:#x}", self.entropy_seed),
            "knobs": self.knobs.to_json(), "delay_us": self.delay_us,
        })
    }
    pub fn from_json(v: &Value) -> Option<Case> {
        Some(Case {
            state: v.get("state")?.as_u64()? as usize,
            variant: v.get("variant")?.as_u64()? as usize,
            seed: v
                .get("sched_seed")
                .and_then(|s| s.as_str())
                .and_then(parse_u64)?,
            entropy_seed: v
                .get("entropy_seed")
                .and_then(|s| s.as_str())
                .and_then(parse_u64)?,
            knobs: ExecKnobs::from_json(v.get("knobs")?)?,
            delay_us: v.get("delay_us")?.as_u64()?,
        })
    }
}

pub fn gen_case(seed: u64, k: u64) -> Case {
    let cells = (N_STATES * N_VARIANTS) as u64;
    let cell = (k % cells) as usize;
    let mut r = Rng::new(rng::derive(seed, "c20.case", k));
    let knobs = ExecKnobs {
        sched: mos_simrt::sched::SchedKnobs {
            stay_bias: *r.pick(&[0u32, 0, 50, 80, 95]),
            early_coin: *r.pick(&[2u32, 4, 8, 16]),
            stall_bound_us: 1_000_000,
            schedule: None,
        },
        net: mos_simrt::net::NetKnobs {
            max_chunk: *r.pick(&[0usize, 0, 1, 7, 64]),
            // (the flooding debugger of S15 needs socket buffers of a realistic size to fill)
            buffer_cap: if cell / N_VARIANTS == 15 {
                *r.pick(&[65536usize, 4096])
            } else {
                *r.pick(&[1usize << 20, 1 << 20, 4096, 256])
            },
        },
        max_steps: if cell % N_VARIANTS == 3 {
            3_000_000
        } else {
            400_000
        },
        record_schedule: false,
    };
    Case {
        state: cell / N_VARIANTS,
        variant: cell % N_VARIANTS,
        seed: rng::derive(seed, "c20.sched", k),
        entropy_seed: rng::derive(seed, "c20.entropy", k),
        knobs,
        // (S17: the shutdown follows the edit at once in two runs of three - the launch is to be still in flight)
        delay_us: if cell / N_VARIANTS == 17 && r.below(3) != 0 { 0 } else { *r.pick(&[0u64, 0, 1_000, 10_000, 49_000, 50_000, 51_000, 200_000]) + r.below(1000) as u64 }
            // the editor sat open for a while in this state before it was closed (only in states in which the
            // server has nothing to compute, so that the time costs the simulation next to nothing)
            + if matches!(cell / N_VARIANTS, 0 | 1 | 3 | 4 | 5 | 6 | 7 | 8 | 9 | 14) && r.below(3) == 0 {
                *r.pick(&[3_000_000u64, 17_000_000, 64_000_000])
            } else {
                0
            },
    }
}

#[derive(Clone, Debug, Default)]
pub struct Verdict {
    /// exit status of the simulated process: 0 Ok, 1 Err, 101 panic; None = did not exit
    pub status: Option<i32>,
    pub error_text: String,
    pub state_reached: bool,
    pub wait_us: u64,
    /// of that, simulated time that passed while nothing at all was runnable
    pub idle_wait_us: u64,
    pub ports_bound_at_exit: Vec<u16>,
    pub hang: bool,
    pub notes: Vec<String>,
}

fn sim_disk(state: usize) -> SimDisk {
    let mut d = SimDisk::new();
    d.add_dir(WS);
    if state != 12 {
        d.add_file(
            format!("{}/mos.toml", WS),
            b"[build]\nentry = \"main.asm\"\n".to_vec(),
        );
    }
    d.add_file(
        format!("{}/main.asm", WS),
        program_of(state).as_bytes().to_vec(),
    );
    d
}

fn program_of(state: usize) -> &'static str {
    match state {
        7 => SHORT_PROGRAM,
        16 => ENDLESS_SUB_PROGRAM,
        18 => ENDLESS_MAIN_PROGRAM,
        _ => LONG_PROGRAM,
    }
}

/// The arguments a debugger front end may send with `disconnect` (all legal; which one is a function of the seed)
fn disconnect_args(seed: u64) -> Value {
    match mos_simrt::rng::derive(seed, "c20.disconnect_args", 0) % 4 {
        0 => json!({}),
        1 => json!({"terminateDebuggee": false}),
        2 => json!({"terminateDebuggee": true}),
        _ => json!({"restart": false, "terminateDebuggee": false, "suspendDebuggee": false}),
    }
}

/// Drive the DAP client into the requested session state. Returns false if the state could not be reached.
fn reach_state(
    state: usize,
    seed: u64,
    dap: &mut Option<DapClient>,
    notes: &mut Vec<String>,
) -> bool {
    if state == 0 || state == 14 {
        return true;
    }
    let mut c = match DapClient::connect(PORT, 400) {
        Some(c) => c,
        None => {
            notes.push("could not connect to the debug adapter port".into());
            return false;
        }
    };
    if state == 9 {
        // connected, but the client never says anything
        *dap = Some(c);
        return true;
    }
    let ok = (|| -> Result<(), super::clients::ClientErr> {
        c.request(
            "initialize",
            json!({"clientID": "sim", "linesStartAt1": true, "columnsStartAt1": true}),
        )?;
        if state == 1 {
            return Ok(());
        }
        if state == 6 {
            // attached, then the TCP connection is dropped
            c.close();
            return Ok(());
        }
        if state == 17 {
            // the launch is on its way (it needs the language server's context) while the editor sends an edit
            // (the analysis holds that context); the caller sends the edit right after this returns
            c.send_only(
                "launch",
                json!({"workspace": WS, "testRunner": {"testCaseName": "t"}}),
            )?;
            return Ok(());
        }
        // the launch arguments a front end may send (all legal): "Run Without Debugging" is `noDebug: true`; in the
        // other states one session in four says `noDebug: false` explicitly
        let launch_args = if state == 18 {
            json!({"workspace": WS, "noDebug": true, "testRunner": {"testCaseName": "t"}})
        } else if mos_simrt::rng::derive(seed, "c20.launch_args", 0) % 4 == 0 {
            json!({"workspace": WS, "noDebug": false, "testRunner": {"testCaseName": "t"}})
        } else {
            json!({"workspace": WS, "testRunner": {"testCaseName": "t"}})
        };
        c.request("launch", launch_args)?;
        if state == 11 {
            // an impatient client: pause / continue while the machine is still launching
            c.request("pause", json!({"threadId": 1}))?;
            c.request("continue", json!({"threadId": 1}))?;
            clock::sleep(Duration::from_millis(3));
            return Ok(());
        }
        if state == 16 {
            // breakpoint on the `jsr forever` line (1-based line 3)
            c.request("setBreakpoints", json!({"source": {"path": format!("{}/main.asm", WS)}, "breakpoints": [{"line": 3}]}))?;
        }
        if state == 3 {
            // breakpoint on the `iny` line (1-based line 6)
            c.request("setBreakpoints", json!({"source": {"path": format!("{}/main.asm", WS)}, "breakpoints": [{"line": 6}]}))?;
        }
        c.request("configurationDone", Value::Null)?;
        match state {
            3 => {
                if c.wait_event("stopped", Duration::from_secs(10)).is_none() {
                    return Err(super::clients::ClientErr::Timeout);
                }
            }
            16 => {
                if c.wait_event("stopped", Duration::from_secs(10)).is_none() {
                    return Err(super::clients::ClientErr::Timeout);
                }
                // step over a call that never comes back; the answer is not awaited
                c.send_only("next", json!({"threadId": 1}))?;
                clock::sleep(Duration::from_millis(3));
            }
            18 => {
                // the test runs (it never ends by itself); the user presses "pause" - or asks for the registers - and
                // closes the editor without waiting for the answer
                clock::sleep(Duration::from_millis(3));
                match mos_simrt::rng::derive(seed, "c20.s18", 0) % 3 {
                    0 => c.send_only("pause", json!({"threadId": 1}))?,
                    1 => c.send_only("variables", json!({"variablesReference": 1}))?,
                    _ => {
                        c.send_only("pause", json!({"threadId": 1}))?;
                        c.send_only("variables", json!({"variablesReference": 1}))?;
                    }
                }
                clock::sleep(Duration::from_millis(3));
            }
            15 => {
                clock::sleep(Duration::from_millis(3));
                c.flood_without_reading(3_000);
                clock::sleep(Duration::from_millis(200));
            }
            13 => {
                clock::sleep(Duration::from_millis(3));
                c.request("pause", json!({"threadId": 1}))?;
                if c.wait_event("stopped", Duration::from_secs(10)).is_none() {
                    return Err(super::clients::ClientErr::Timeout);
                }
                // three requests a debugger front end may well send; whether they are answered, answered with
                // an error or not answered at all is not judged here - only what the process does at shutdown
                let main = format!("{}/main.asm", WS);
                let awkward: Vec<(&str, Value)> = vec![
                    ("evaluate", json!({"expression": "ram16($ffff)"})),
                    ("evaluate", json!({"expression": "ram($10000)"})),
                    ("evaluate", json!({"expression": "ram(-1)"})),
                    ("evaluate", json!({"expression": "1 / 0"})),
                    ("evaluate", json!({"expression": "cpu.a +"})),
                    ("evaluate", json!({"expression": "no_such_symbol"})),
                    ("evaluate", json!({"expression": ""})),
                    ("evaluate", json!({"expression": "cpu.flags.nonsense"})),
                    (
                        "setVariable",
                        json!({"variablesReference": 1, "name": "A", "value": "999"}),
                    ),
                    (
                        "setVariable",
                        json!({"variablesReference": 1, "name": "PC", "value": "1"}),
                    ),
                    (
                        "setVariable",
                        json!({"variablesReference": 1, "name": "X", "value": "%2"}),
                    ),
                    ("completions", json!({"text": "cpu.", "column": 99})),
                    ("completions", json!({"text": "cpu.flags.", "column": 0})),
                    ("completions", json!({"text": "é", "column": 1})),
                    (
                        "setBreakpoints",
                        json!({"source": {"path": main}, "breakpoints": [{"line": 0}]}),
                    ),
                    (
                        "setBreakpoints",
                        json!({"source": {"path": main}, "breakpoints": [{"line": 1, "column": 0}]}),
                    ),
                    (
                        "setBreakpoints",
                        json!({"source": {"path": main}, "breakpoints": [{"line": 4000000000u64}]}),
                    ),
                    (
                        "setBreakpoints",
                        json!({"source": {"path": "/nowhere/else.asm"}, "breakpoints": [{"line": 2}]}),
                    ),
                    ("setBreakpoints", json!({"source": {}, "breakpoints": []})),
                    ("variables", json!({"variablesReference": 99})),
                    ("scopes", json!({"frameId": 99})),
                    ("stackTrace", json!({"threadId": 99})),
                    ("frobnicate", json!({})),
                    (
                        "launch",
                        json!({"workspace": WS, "testRunner": {"testCaseName": "t"}}),
                    ),
                    (
                        "launch",
                        json!({"workspace": WS, "testRunner": {"testCaseName": "no_such_test"}}),
                    ),
                    ("initialize", json!({"clientID": "again"})),
                    ("configurationDone", Value::Null),
                ];
                let mut r =
                    mos_simrt::rng::Rng::new(mos_simrt::rng::derive(seed, "c20.awkward", 0));
                c.timeout = Duration::from_secs(3);
                for _ in 0..3 {
                    let (cmd, args) = r.pick(&awkward).clone();
                    if c.dead {
                        break;
                    }
                    let _ = c.request(cmd, args);
                }
            }
            4 => {
                clock::sleep(Duration::from_millis(3));
                c.request("pause", json!({"threadId": 1}))?;
                if c.wait_event("stopped", Duration::from_secs(10)).is_none() {
                    return Err(super::clients::ClientErr::Timeout);
                }
            }
            5 => {
                clock::sleep(Duration::from_millis(3));
                c.request("disconnect", disconnect_args(seed))?;
            }
            7 => {
                if c.wait_event("terminated", Duration::from_secs(10))
                    .is_none()
                {
                    return Err(super::clients::ClientErr::Timeout);
                }
            }
            8 => {
                // first session ends with disconnect, a second debugger attaches and stays idle
                clock::sleep(Duration::from_millis(3));
                c.request("disconnect", disconnect_args(seed))?;
                let mut c2 =
                    DapClient::connect(PORT, 400).ok_or(super::clients::ClientErr::Closed)?;
                c2.request(
                    "initialize",
                    json!({"clientID": "sim2", "linesStartAt1": true, "columnsStartAt1": true}),
                )?;
                c = c2;
            }
            10 => {
                // requests are in flight (no answer awaited) when the shutdown begins
                clock::sleep(Duration::from_millis(3));
                c.send_only("variables", json!({"variablesReference": 1}))?;
                c.send_only("pause", json!({"threadId": 1}))?;
                c.send_only("stackTrace", json!({"threadId": 1}))?;
            }
            _ => {}
        }
        Ok(())
    })();
    let reached = ok.is_ok();
    if let Err(e) = ok {
        notes.push(format!("state script ended early: {:?}", e));
    }
    *dap = Some(c);
    reached
}

pub fn scenario(case: &Case, slot: &Arc<StdMutex<Option<Verdict>>>) {
    let mut v = Verdict::default();
    if case.state == 14 {
        // fault: another process (a second editor window, a forgotten `mos lsp`) holds the debug port
        net::occupy_port(PORT);
    }
    let (w, r) = pipe::create();
    let main_done = Arc::new(::std::sync::atomic::AtomicBool::new(false));
    let main_done2 = main_done.clone();
    let main = shuttle::thread::Builder::new()
        .name("main".into())
        .spawn(move || {
            let r = std::panic::catch_unwind(|| {
                let args = <LspArgs as argh::FromArgs>::from_args(&["lsp"], &[]).expect("args");
                lsp_command(&args)
            });
            main_done2.store(true, ::std::sync::atomic::Ordering::SeqCst);
            match r {
                Ok(Ok(())) => (0, String::new()),
                Ok(Err(e)) => (1, e.to_string()),
                Err(_) => (101, "panic on the main thread".to_string()),
            }
        })
        .expect("spawn main");
    let mut lsp = LspClient::new(w, r);
    let mut dap: Option<DapClient> = None;
    let mut late_dap: Option<DapClient> = None;
    let state = case.state;
    let variant = case.variant;
    let setup = (|| -> Result<(), super::clients::ClientErr> {
        lsp.initialize()?;
        lsp.did_open(&format!("{}/main.asm", WS), program_of(state))?;
        Ok(())
    })();
    if let Err(e) = &setup {
        v.notes.push(format!("LSP setup failed: {:?}", e));
    }
    v.state_reached = setup.is_ok() && reach_state(state, case.seed, &mut dap, &mut v.notes);
    if state == 17 {
        // 1-3 edits in a row (typing): the analyses of all of them hold the context the launch is waiting for
        let n_edits = 1 + mos_simrt::rng::derive(case.seed, "c20.s17.edits", 0) % 3;
        for e in 0..n_edits {
            let edited = format!("{}\n// edited {}\n", program_of(state), e);
            let _ = lsp.did_change(&format!("{}/main.asm", WS), &edited);
        }
    }
    hist(
        "harness",
        "state_reached",
        json!({"state": STATE_NAMES[state], "reached": v.state_reached}),
    );
    clock::sleep(Duration::from_micros(case.delay_us));
    mos_simrt::probe::hit("c20_shutdown_begins");
    // the shutdown variant
    let dap_disconnect = |dap: &mut Option<DapClient>| {
        if let Some(c) = dap.as_mut() {
            if !c.dead {
                let _ = c.send_only("disconnect", disconnect_args(case.seed));
            }
        }
    };
    match variant {
        6 => {
            // a debugger (re)attaches after `shutdown` was answered and before `exit` is sent
            let resp = lsp.request("shutdown", Value::Null);
            if resp.is_err() {
                v.notes.push(format!("no response to shutdown: {:?}", resp));
            }
            if let Some(mut late) = DapClient::connect(PORT, 40) {
                late.timeout = Duration::from_millis(300);
                let _ = late.send_only(
                    "initialize",
                    json!({"clientID": "late", "linesStartAt1": true, "columnsStartAt1": true}),
                );
                clock::sleep(Duration::from_micros(case.delay_us % 120_000));
                late_dap = Some(late);
            }
            let _ = lsp.notify("exit", Value::Null);
            lsp.close_pipe();
        }
        0 | 1 | 4 | 5 => {
            if variant == 4 {
                dap_disconnect(&mut dap);
            }
            let resp = lsp.request("shutdown", Value::Null);
            if resp.is_err() {
                v.notes.push(format!("no response to shutdown: {:?}", resp));
            }
            if variant == 5 {
                dap_disconnect(&mut dap);
            }
            let _ = lsp.notify("exit", Value::Null);
            if variant != 1 {
                lsp.close_pipe();
            }
        }
        2 => {
            lsp.close_pipe();
        }
        7 => {
            // the editor is killed while it writes a message: half a frame, then the pipe closes
            let _ = lsp.raw(b"Content-Length: 58\r\n\r\n{\"jsonrpc\":\"2.0\",\"method\":\"textDocu");
            lsp.close_pipe();
        }
        _ => {
            // V4: shutdown, exit withheld; the 30-s timeout of lsp-server must fire
            let _ = lsp.request("shutdown", Value::Null);
        }
    }
    hist("harness", "last_client_action", Value::Null);
    let t0 = clock::now_us();
    let d0 = mos_simrt::sched::decisions_so_far();
    let q0 = clock::quiescent_us();
    let bound_us: u64 = if variant == 3 { 45_000_000 } else { 5_000_000 };
    // Simulated time alone is not evidence that the process had the chance to finish: the clock may run ahead
    // of threads that still have hundreds of small steps to take (single-byte socket writes under an eager
    // clock). So the process also gets PATIENCE scheduling decisions after the client's last action; a process
    // that is really stuck does not exit however many it gets.
    const PATIENCE: u64 = 60_000;
    loop {
        if main_done.load(::std::sync::atomic::Ordering::SeqCst) {
            break;
        }
        // ... or one that has, since the client's last action, spent more than the bound with every one of its
        // threads waiting (time that passes while nothing is runnable cannot be the clock running ahead).
        let waited_idle = clock::quiescent_us() - q0 > bound_us;
        if waited_idle
            || (clock::now_us() - t0 > bound_us && mos_simrt::sched::decisions_so_far() - d0 > PATIENCE)
        {
            v.hang = true;
            break;
        }
        clock::sleep(Duration::from_millis(25));
    }
    v.wait_us = clock::now_us() - t0;
    v.idle_wait_us = clock::quiescent_us() - q0;
    if v.hang {
        v.ports_bound_at_exit = net::bound_ports();
        hist("harness", "hang", json!({"waited_us": v.wait_us}));
        *slot.lock().unwrap() = Some(v);
        // simulated `kill -9`: end the execution
        panic!("{} process did not exit", ABORT_MARKER);
    }
    match main.join() {
        Ok((status, text)) => {
            v.status = Some(status);
            v.error_text = text;
        }
        Err(_) => {
            v.status = Some(101);
        }
    }
    // "leaves no listening socket behind": once main() has returned the process is gone,
    // unless a thread the glue code joins is still alive; sockets are judged at this instant
    v.ports_bound_at_exit = net::bound_ports();
    hist(
        "harness",
        "process_exit",
        json!({"status": v.status, "ports": v.ports_bound_at_exit}),
    );
    if let Some(c) = dap.as_mut() {
        c.drain();
    }
    if let Some(c) = late_dap.as_mut() {
        c.drain();
    }
    *slot.lock().unwrap() = Some(v);
    // process exit: whatever threads are left are killed with the process
    panic!("{} process exited", ABORT_MARKER);
}

#[derive(Clone, Debug)]
pub struct Found {
    pub class: String,
    pub sig: String,
    pub message: String,
}

pub struct RunResult {
    pub inconclusive: bool,
    pub found: Option<Found>,
    pub verdict: Option<Verdict>,
    pub nontrivial: bool,
    pub trace: u64,
    pub steps: u64,
    pub switches: u64,
    pub sim_us: u64,
    pub net: NetStats,
    pub probes: BTreeMap<&'static str, u64>,
    pub history: Vec<HistEv>,
    pub quiescence_jumps: u64,
    pub early_firings: u64,
    pub recorded: Vec<u32>,
}

fn short_loc(loc: &str) -> String {
    let l = loc.trim_start_matches("/repo/");
    if let Some(i) = l.find("/registry/src/") {
        let rest = &l[i + 14..];
        return rest.splitn(2, '/').nth(1).unwrap_or(rest).to_string();
    }
    l.to_string()
}

fn judge(case: &Case, v: &Verdict, cell: &str) -> Option<Found> {
    if !v.state_reached {
        return None;
    }
    // V1, V2, V5, V6: status 0 required. V3 (pipe closed without shutdown): the property only asks
    // for termination, but termination by a panic (101) is not a clean one. V4: status not judged.
    let must_be_zero = matches!(case.variant, 0 | 1 | 4 | 5 | 6);
    if must_be_zero && v.status != Some(0) {
        return Some(Found {
            class: "exit_status".into(),
            sig: format!("exit_status_{}:{}", v.status.unwrap_or(-1), cell),
            message: format!(
                "{}: exit status {:?} ({}) instead of 0",
                cell, v.status, v.error_text
            ),
        });
    }
    if v.status == Some(0) && !v.ports_bound_at_exit.is_empty() {
        return Some(Found {
            class: "listening_socket_left".into(),
            sig: format!("listening_socket_left:{}", cell),
            message: format!(
                "{}: the process returned 0 but a listener is still bound on {:?}",
                cell, v.ports_bound_at_exit
            ),
        });
    }
    if (case.variant == 2 || case.variant == 7) && v.status == Some(101) {
        return Some(Found {
            class: "exit_status".into(),
            sig: format!("exit_status_101:{}", cell),
            message: format!(
                "{}: closing the pipe terminated the process by a panic (status 101)",
                cell
            ),
        });
    }
    None
}

pub fn run_case(case: &Case) -> RunResult {
    let c2 = case.clone();
    let out = run_execution(
        case.seed,
        case.entropy_seed,
        sim_disk(case.state),
        &case.knobs,
        move |slot| scenario(&c2, slot),
    );
    let cell = format!(
        "{}/{}",
        STATE_NAMES[case.state], VARIANT_NAMES[case.variant]
    );
    let verdict = out.result.clone();
    let mut found = None;
    let mut inconclusive = false;
    match (&out.panic, &verdict) {
        (Some(p), Some(v)) if v.hang && p.message.contains(ABORT_MARKER) => {
            found = Some(Found {
                class: "hang".into(),
                sig: format!("hang:{}", cell),
                message: format!(
                    "{}: the process did not exit within {} ms of simulated time after the client's last action (ports still bound: {:?})",
                    cell,
                    v.wait_us / 1000,
                    v.ports_bound_at_exit
                ),
            });
        }
        (Some(p), Some(v)) if p.message.contains(ABORT_MARKER) => {
            found = judge(case, v, &cell);
        }
        (Some(p), _) => {
            let (class, what) = if p.message.starts_with("deadlock") {
                ("deadlock", "deadlock".to_string())
            } else if p.message.contains("exceeded max_steps") || p.message.contains("max_steps") {
                ("step_budget", "step_budget".to_string())
            } else {
                ("thread_panic", format!("panic@{}", short_loc(&p.location)))
            };
            if class == "step_budget" {
                // the harness's own step budget ran out before the simulated-time deadline:
                // inconclusive, never a verdict (counted; too many of them is a harness error)
                inconclusive = true;
            } else {
                found = Some(Found {
                    class: class.into(),
                    sig: format!("{}:{}:{}", class, what, cell),
                    message: format!(
                        "{}: {} at {}",
                        cell,
                        p.message.chars().take(600).collect::<String>(),
                        short_loc(&p.location)
                    ),
                });
            }
        }
        (None, Some(v)) => {
            found = judge(case, v, &cell);
        }
        (None, None) => {
            found = Some(Found {
                class: "harness".into(),
                sig: "harness:no_verdict".into(),
                message: "execution ended without a verdict".into(),
            });
        }
    }
    let mut trace = out.sched.switch_hash;
    trace = rng::fnv64_extend(trace, cell.as_bytes());
    let nontrivial = found.is_none()
        && verdict.as_ref().map(|v| v.state_reached).unwrap_or(false)
        && out.sched.context_switches >= 10
        && out.probes.get("c20_shutdown_begins").copied().unwrap_or(0) > 0;
    RunResult {
        inconclusive,
        found,
        verdict,
        nontrivial,
        trace,
        steps: out.sched.decisions,
        switches: out.sched.context_switches,
        sim_us: out.sim_time_us,
        net: out.net,
        probes: out.probes,
        history: out.history,
        quiescence_jumps: out.quiescence_jumps,
        early_firings: out.early_firings,
        recorded: out.recorded,
    }
}

fn history_json(h: &[HistEv], max: usize) -> Value {
    Value::Array(
        h.iter()
            .take(max)
            .map(|e| {
                let d = e.data.to_string();
                json!({"seq": e.seq, "t_us": e.t_us, "who": e.who, "what": e.what, "data": if d.len() > 300 { json!(format!("{}...", &d[..300])) } else { e.data.clone() }})
            })
            .collect(),
    )
}

fn replay(cli: &Cli, path: &std::path::Path) -> i32 {
    let case = match read_json(path).ok().and_then(|v| Case::from_json(&v)) {
        Some(c) => c,
        None => {
            eprintln!("harness error: malformed replay file");
            return EXIT_HARNESS;
        }
    };
    let expect_abort = read_json(path).ok().and_then(|v| v.get("expect_abort").and_then(|b| b.as_bool())).unwrap_or(false);
    if expect_abort && !cli.opts.contains_key("inner") {
        let cell = format!("{}/{}", STATE_NAMES[case.state], VARIANT_NAMES[case.variant]);
        let (aborted, first_panic) = replay_in_child(cli, path);
        let rr = ReplayResult {
            violated: aborted,
            sig: if aborted { format!("process_abort:{}", cell) } else { "-".into() },
            class: if aborted { "process_abort".into() } else { "-".into() },
            message: if aborted {
                format!("{}: the simulated process died of SIGABRT; first panic: {}", cell, first_panic)
            } else {
                "the execution did not abort its process".into()
            },
            log_hash: 0,
        };
        return print_replay_result(PROP, &rr);
    }
    let silencer = StderrSilencer::new();
    let r = run_case(&case);
    drop(silencer);
    if cli.opts.contains_key("dump") {
        println!(
            "{}",
            serde_json::to_string_pretty(&history_json(&r.history, 400)).unwrap()
        );
        println!("verdict: {:?}", r.verdict);
    }
    let rr = match r.found {
        Some(f) => ReplayResult {
            violated: true,
            sig: f.sig,
            class: f.class,
            message: f.message,
            log_hash: r.trace,
        },
        None => ReplayResult {
            violated: false,
            sig: "-".into(),
            class: "-".into(),
            message: format!("{:?}", r.verdict),
            log_hash: r.trace,
        },
    };
    print_replay_result(PROP, &rr)
}

#[derive(Default, serde::Serialize, serde::Deserialize)]
struct Acc {
    #[serde(default)]
    sched_minimised: u64,
    max_wait_us: u64,
    max_idle_wait_us: u64,
    runs: u64,
    steps: u64,
    switches: u64,
    sim_us: u64,
    quiescence_jumps: u64,
    early_firings: u64,
    nontrivial: BTreeSet<u64>,
    traces: BTreeSet<u64>,
    cells: BTreeMap<String, (u64, u64, u64)>,
    statuses: BTreeMap<String, u64>,
    probes: BTreeMap<String, u64>,
    net: BTreeMap<String, u64>,
    violations: Vec<Violation>,
    sigs: BTreeMap<String, u64>,
    digests: Vec<(u64, u64)>,
    samples: Vec<(u64, Value)>,
    state_not_reached: u64,
    inconclusive: u64,
}

/// executions per child process (shuttle leaks ~250 KB per execution that ends by a panic)
const PROC_CHUNK: u64 = 6_000;

pub fn main(cli: &Cli) -> i32 {
    if let Some(p) = &cli.replay {
        return replay(cli, p);
    }
    let per_cell = match cli.tier {
        Tier::Quick => 24u64,
        Tier::Thorough => 1_200u64,
    };
    let n = cli
        .runs
        .unwrap_or(per_cell * (N_STATES * N_VARIANTS) as u64);
    let seed = cli.seed;
    if cli.mode.as_deref() == Some("gen") {
        // print the case with index --from (and run it with --dump for its history)
        let k: u64 = cli
            .opts
            .get("from")
            .and_then(|s| s.parse().ok())
            .unwrap_or(0);
        let case = gen_case(seed, k);
        let silencer = StderrSilencer::new();
        let r = run_case(&case);
        drop(silencer);
        println!("{}", serde_json::to_string_pretty(&json!({"case": case.to_json(), "verdict": format!("{:?}", r.verdict), "inconclusive": r.inconclusive, "found": r.found.as_ref().map(|f| f.message.clone()), "history": history_json(&r.history, 400)})).unwrap());
        return EXIT_OK;
    }
    let determinism = cli.mode.as_deref() == Some("determinism");
    let mut ev = Evidence::new(PROP, cli);
    let silencer = StderrSilencer::new();
    let known = KnownFindings::load();
    let folded = par_fold_chunked(
        cli,
        n,
        PROC_CHUNK,
        Acc::default,
        |acc: &mut Acc, k: u64| {
            let case = gen_case(seed, k);
            let r = run_case(&case);
            acc.runs += 1;
            if r.inconclusive {
                acc.inconclusive += 1;
            }
            acc.steps += r.steps;
            acc.switches += r.switches;
            acc.sim_us += r.sim_us;
            acc.quiescence_jumps += r.quiescence_jumps;
            acc.early_firings += r.early_firings;
            acc.traces.insert(r.trace);
            if r.nontrivial {
                acc.nontrivial.insert(r.trace);
            }
            let cell = format!(
                "{}/{}",
                STATE_NAMES[case.state], VARIANT_NAMES[case.variant]
            );
            let e = acc.cells.entry(cell).or_insert((0, 0, 0));
            e.0 += 1;
            if r.verdict.as_ref().map(|v| v.state_reached).unwrap_or(false) {
                e.1 += 1;
            } else {
                acc.state_not_reached += 1;
            }
            if r.found.is_some() {
                e.2 += 1;
            }
            let st = match &r.verdict {
                Some(v) if v.hang => "hang".to_string(),
                Some(v) => format!("exit_{}", v.status.unwrap_or(-1)),
                None => "aborted".to_string(),
            };
            *acc.statuses.entry(st).or_insert(0) += 1;
            for (k2, v) in &r.probes {
                *acc.probes.entry(k2.to_string()).or_insert(0) += v;
            }
            for (k2, v) in [
                ("short_reads", r.net.short_reads),
                ("short_writes", r.net.short_writes),
                ("blocked_writes", r.net.blocked_writes),
                ("accepts", r.net.accepts),
                ("binds", r.net.binds),
                ("bind_conflicts", r.net.bind_conflicts),
                ("fin", r.net.fin),
                ("rst", r.net.rst),
                ("connect_refused", r.net.refused),
            ] {
                *acc.net.entry(k2.to_string()).or_insert(0) += v;
            }
            if let Some(v) = &r.verdict {
                if !v.hang && case.variant != 3 {
                    acc.max_idle_wait_us = acc.max_idle_wait_us.max(v.idle_wait_us);
                    acc.max_wait_us = acc.max_wait_us.max(v.wait_us);
                }
            }
            let mut dg = r.trace;
            dg = rng::fnv64_extend(dg, &r.steps.to_le_bytes());
            dg = rng::fnv64_extend(
                dg,
                format!(
                    "{:?}",
                    r.verdict.as_ref().map(|v| (v.status, v.hang, v.wait_us))
                )
                .as_bytes(),
            );
            if let Some(f) = &r.found {
                dg = rng::fnv64_extend(dg, f.sig.as_bytes());
            }
            acc.digests.push((k, dg));
            if acc.samples.len() < 2 && r.found.is_none() && case.state >= 2 {
                acc.samples.push((k, json!({"run": k, "case": case.to_json(), "verdict": format!("{:?}", r.verdict), "history": history_json(&r.history, 60)})));
            }
            if let Some(f) = r.found {
                *acc.sigs.entry(f.sig.clone()).or_insert(0) += 1;
                if !determinism && !acc.violations.iter().any(|v| v.sig == f.sig) {
                    // the schedule: recorded, replayed, reduced (first two unlisted signatures per worker)
                    let mut replay_json = case.to_json();
                    let mut message = format!("C20 run {}: {}", k, f.message);
                    if acc.sched_minimised < 2 && known.lookup(PROP, &f.sig).is_none() {
                        acc.sched_minimised += 1;
                        let base = case.clone();
                        if let Some((k2, info)) = minimise_schedule(&case.knobs, &f.sig, 100, &|kn: &ExecKnobs| {
                            let mut c = base.clone();
                            c.knobs = kn.clone();
                            let r = run_case(&c);
                            (r.found.map(|x| x.sig), r.recorded, r.switches)
                        }) {
                            let mut m = case.clone();
                            m.knobs = k2;
                            message = format!("{} [schedule minimised: {} -> {} context switches]", message, info["recorded_context_switches"], info["context_switches_of_the_minimised_execution"]);
                            let seed_only = replay_json;
                            replay_json = m.to_json();
                            replay_json["schedule_minimisation"] = info;
                            replay_json["seed_only_fallback"] = seed_only;
                        }
                    }
                    acc.violations.push(Violation {
                        property: PROP,
                        class: f.class.clone(),
                        sig: f.sig.clone(),
                        message,
                        run_index: k,
                        replay: replay_json,
                    });
                }
            }
        },
        |t: &mut Acc, a: Acc| {
            t.runs += a.runs;
            t.steps += a.steps;
            t.switches += a.switches;
            t.sim_us += a.sim_us;
            t.max_wait_us = t.max_wait_us.max(a.max_wait_us);
            t.max_idle_wait_us = t.max_idle_wait_us.max(a.max_idle_wait_us);
            t.quiescence_jumps += a.quiescence_jumps;
            t.early_firings += a.early_firings;
            t.nontrivial.extend(a.nontrivial);
            t.traces.extend(a.traces);
            t.state_not_reached += a.state_not_reached;
            t.inconclusive += a.inconclusive;
            for (k, v) in a.cells {
                let e = t.cells.entry(k).or_insert((0, 0, 0));
                e.0 += v.0;
                e.1 += v.1;
                e.2 += v.2;
            }
            for (k, v) in a.statuses {
                *t.statuses.entry(k).or_insert(0) += v;
            }
            for (k, v) in a.probes {
                *t.probes.entry(k).or_insert(0) += v;
            }
            for (k, v) in a.net {
                *t.net.entry(k).or_insert(0) += v;
            }
            for (k, v) in a.sigs {
                *t.sigs.entry(k).or_insert(0) += v;
            }
            t.violations.extend(a.violations);
            t.digests.extend(a.digests);
            t.samples.extend(a.samples);
        },
    );
    drop(silencer);
    let mut acc = match folded {
        Ok(Some(a)) => a,
        Ok(None) => return EXIT_OK,
        Err(e) if e.starts_with("ABORT ") => {
            // An execution took its (child) process down with SIGABRT: a thread of the simulated process panicked and
            // a destructor that ran while it unwound panicked as well. Isolate the execution and report it.
            let mut it = e.split(' ').skip(1).filter_map(|x| x.parse::<u64>().ok());
            let (a, b) = (it.next().unwrap_or(0), it.next().unwrap_or(n));
            let k = match isolate_abort(cli, a, b) {
                Some(k) => k,
                None => {
                    eprintln!("harness error: a chunk process for executions {}..{} died of SIGABRT but no single execution does", a, b);
                    return EXIT_HARNESS;
                }
            };
            let case = gen_case(seed, k);
            let cell = format!("{}/{}", STATE_NAMES[case.state], VARIANT_NAMES[case.variant]);
            let mut replay_json = case.to_json();
            replay_json["expect_abort"] = json!(true);
            ev.evaluations = k + 1;
            ev.rule = "batch cut short: an execution aborted its process; only that execution is reported".into();
            ev.samples = vec![json!({"run": k, "case": case.to_json()})];
            let v = Violation {
                property: PROP,
                class: "process_abort".into(),
                sig: format!("process_abort:{}", cell),
                message: format!("C20 run {}: {}: the simulated process died of SIGABRT - a thread panicked and a destructor that ran while it unwound panicked too (in the simulation a lock taken inside a destructor cannot be waited for while unwinding; the first panic is the defect - the replay prints it)", k, cell),
                run_index: k,
                replay: replay_json,
            };
            return conclude(cli, &mut ev, vec![v]);
        }
        Err(e) => {
            eprintln!("harness error: {}", e);
            return EXIT_HARNESS;
        }
    };
    acc.digests.sort();
    let mut batch = 0xcbf2_9ce4_8422_2325u64;
    for (k, h) in &acc.digests {
        batch = rng::fnv64_extend(batch, &k.to_le_bytes());
        batch = rng::fnv64_extend(batch, &h.to_le_bytes());
    }
    if determinism {
        println!(
            "DETERMINISM engine=threadsim/C20 runs={} batch_hash={:016x}",
            acc.runs, batch
        );
        return EXIT_OK;
    }
    acc.samples.sort_by_key(|(k, _)| *k);
    acc.samples.truncate(3);
    ev.evaluations = acc.runs;
    ev.distinct_nontrivial = acc.nontrivial.len() as u64;
    ev.rule = format!(
        "the {} x {} grid (session state at shutdown x shutdown variant) is enumerated completely, {} executions per cell; per execution a seed decides the interleaving of all tasks (main/LSP loop, stdio reader+writer, debug-server thread, DAP reader+writer, machine thread, poller, clients, clock), the delay before shutdown, stream chunk sizes and buffer capacities. distinct = distinct hash of (cell, sequence of tasks chosen at context switches); non-trivial = violation-free AND the session state was reached AND >= 10 context switches AND the shutdown path ran",
        N_STATES, N_VARIANTS, n / (N_STATES * N_VARIANTS) as u64
    );
    ev.samples = acc.samples.iter().map(|(_, v)| v.clone()).collect();
    if ev.samples.is_empty() {
        ev.samples.push(json!({"note": "no violation-free execution with a debugger attached in this batch", "case": gen_case(seed, 0).to_json()}));
    }
    ev.set("grid_exhaustive", json!(true));
    ev.set(
        "cells",
        json!(acc
            .cells
            .iter()
            .map(|(k, v)| (
                k.clone(),
                json!({"executions": v.0, "state_reached": v.1, "violations": v.2})
            ))
            .collect::<BTreeMap<_, _>>()),
    );
    ev.set("state_not_reached", json!(acc.state_not_reached));
    ev.set("inconclusive_step_budget", json!(acc.inconclusive));
    ev.set("exit_statuses", json!(acc.statuses));
    ev.set("scheduling_decisions", json!(acc.steps));
    ev.set("context_switches", json!(acc.switches));
    ev.set("simulated_time_ms", json!(acc.sim_us / 1000));
    ev.set("clock_jumps_at_quiescence", json!(acc.quiescence_jumps));
    ev.set("calibration_of_the_hang_rule (runs that exited, bound 5000 ms)", json!({"longest_time_to_exit_after_the_last_client_action_ms": acc.max_wait_us / 1000, "longest_part_of_it_with_nothing_runnable_ms": acc.max_idle_wait_us / 1000}));
    ev.set("early_timer_firings", json!(acc.early_firings));
    ev.set("distinct_interleavings", json!(acc.traces.len()));
    ev.set(
        "interleaving_measure",
        json!("distinct hashes of the sequence of tasks chosen at context switches, per grid cell"),
    );
    ev.set("fault_kinds_injected", json!(acc.net));
    ev.set("probes", json!(acc.probes));
    ev.set("violation_signatures_seen_in_batch", json!(acc.sigs));
    ev.set("batch_hash", json!(format!("{:016x}", batch)));
    ev.set("components", json!({
        "real": ["mos::commands::lsp_command glue", "LspContext::listen_stdio, LspServer::new/start/main_loop/handle_message, shutdown handlers", "lsp-server 0.5.2 protocol, framing, IO threads, handle_shutdown with its 30 s timeout", "DebugServer::start/join, DebugSession, DebugConnection reader/writer threads and framing", "Machine + poller, TestRunnerAdapter + machine thread, TestRunner, emulator_6502", "mos-core parser/codegen"],
        "simulated": ["OS scheduler (shuttle coroutines under SimScheduler)", "clock and timers", "TCP loopback", "stdin/stdout pipes (lsp-server stdio.rs patched to use them)", "crossbeam-channel (re-implemented subset incl. Select, rendezvous bounded(0))", "disk", "OS entropy", "LSP and DAP clients"],
        "not_run": ["main() argument parsing, logger setup, std::process::exit", "VICE adapter"],
        "dependency_versions_differing_from_repo_lock": ["smallvec 1.16 (repo: 1.7)", "once_cell 1.21 (1.8)", "libc", "rand/rand_core (dev-only in the repo)", "autocfg (build-only)"]
    }));
    ev.assumptions = vec![
        "process-exit semantics: the execution ends when the simulated main() has returned and the clients are done; threads whose JoinHandle was dropped are killed like the OS would".into(),
        "fairness: no runnable thread is stalled for more than 1 s (bounds early timer firing); otherwise arbitrary relative speeds".into(),
        "liveness is judged only after the client's last action: 5 s of simulated time (45 s when `exit` is withheld)".into(),
    ];
    let mut code = conclude(cli, &mut ev, acc.violations);
    if (acc.inconclusive + acc.state_not_reached) * 25 > acc.runs && code == EXIT_OK {
        eprintln!("harness error: {} of {} executions were inconclusive (step budget) or did not reach their session state", acc.inconclusive + acc.state_not_reached, acc.runs);
        code = EXIT_HARNESS;
    }
    code
}
