//! Verification harness for datatrash/mos: deterministic simulation with fault
//! injection. Mounted inside the `mos` crate by a cfg-guarded `#[path]` hook so
//! that engines can drive crate-private code (`build_command`, `LspServer`,
//! `DebugSession`, ...). See /verif/DESIGN.md.
#![allow(clippy::all)]
#![allow(dead_code)]

pub mod common;
pub mod corpus;
pub mod envsim;
pub mod hashsim;
pub mod lsp_corpus;
pub mod lspsim;
pub mod passwatch;
#[cfg(mos_verif_threads)]
pub mod threadsim;

use common::{Cli, EXIT_HARNESS};

/// Entry point used by the `simctl` binary. Returns the process exit code:
/// 0 property held, 1 violation (VIOLATION line printed), 2 harness error.
pub fn main(args: &[String]) -> i32 {
    let cli = match Cli::parse(args) {
        Ok(c) => c,
        Err(e) => {
            eprintln!("simctl: {}", e);
            return EXIT_HARNESS;
        }
    };
    mos_simrt::panics::install_hook();
    match cli.target.as_str() {
        "C10" | "hashsim" => hashsim::main(&cli),
        "C14" | "lspsim" => lspsim::main(&cli),
        "C06" | "envsim" => envsim::main(&cli),
        #[cfg(mos_verif_threads)]
        "C19" | "C20" => threadsim::main(&cli),
        other => {
            eprintln!("simctl: unknown target {}", other);
            EXIT_HARNESS
        }
    }
}
