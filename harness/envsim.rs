//! envsim (C06, scoped): the real pipelines (build, analysis, LSP analysis,
//! format) against a fault-injecting simulated file system and arbitrary small
//! import graphs, with the pass loop observed on a logical clock. Runs in
//! supervised worker processes because a stack overflow / abort kills the
//! process it happens in.

use super::common::*;
use super::corpus::{Project, WS};
use super::passwatch;
use crate::commands::{build_command, format_command};
use crate::config::Config;
use crate::diagnostic_emitter::DiagnosticEmitter;
use crate::lsp::{LspContext, LspServer};
use codespan_reporting::term::DisplayStyle;
use mos_core::codegen::{codegen, CodegenOptions};
use mos_core::errors::Diagnostics;
use mos_core::parser::source::FileSystemParsingSource;
use mos_simrt::disk::{self, Fault, FaultKind, Op};
use mos_simrt::rng::{self, Rng};
use mos_simrt::{entropy, env, panics};
use serde_json::{json, Value};
use std::collections::{BTreeMap, BTreeSet};
use std::path::{Path, PathBuf};
use std::sync::{Mutex, OnceLock};

const PROP: &str = "C06";
pub const READ_BUDGET: u32 = 200_000;

/// The budget in force: READ_BUDGET, except in the child processes of the minimiser of a file-read loop (see
/// `minimise`), which get a tenth of it through the environment.
fn read_budget() -> u32 {
    std::env::var("VERIF_MINIMISER_READ_BUDGET")
        .ok()
        .and_then(|v| v.parse().ok())
        .unwrap_or(READ_BUDGET)
}
pub const PIPELINES: &[&str] = &["build", "analysis", "lsp", "format"];

fn fragments() -> &'static Vec<String> {
    static F: OnceLock<Vec<String>> = OnceLock::new();
    F.get_or_init(|| serde_json::from_str(include_str!("../corpus/fragments.json")).unwrap())
}
fn boundary() -> &'static Vec<String> {
    static F: OnceLock<Vec<String>> = OnceLock::new();
    F.get_or_init(|| serde_json::from_str(include_str!("../corpus/boundary.json")).unwrap())
}

#[derive(Clone, Debug, PartialEq)]
pub struct Case {
    pub project: Project,
    pub faults: Vec<Fault>,
    pub pipeline: String,
    pub entropy_seed: u64,
    pub shape: String,
}

fn fault_to_json(f: &Fault) -> Value {
    let (kind, arg) = match &f.kind {
        FaultKind::Truncate(n) => ("short_file", json!(n)),
        // (exactly: a replay that gets other bytes than the run is another case)
        FaultKind::Replace(b) => (
            "flap",
            match std::str::from_utf8(b) {
                Ok(s) => json!(s),
                Err(_) => json!({ "bytes": b }),
            },
        ),
        k => (k.name(), Value::Null),
    };
    json!({"path": f.path.to_string_lossy(), "nth": f.nth, "op": match f.op { Op::Read => "read", Op::Write => "write", Op::WriteData => "write_data" }, "kind": kind, "arg": arg})
}

fn fault_from_json(v: &Value) -> Option<Fault> {
    let kind = match v.get("kind")?.as_str()? {
        "enoent" => FaultKind::NotFound,
        "eacces" => FaultKind::PermissionDenied,
        "eisdir" => FaultKind::IsADirectory,
        "eio" => FaultKind::IoError,
        "eintr" => FaultKind::Interrupted,
        "enospc" => FaultKind::NoSpace,
        "short_file" => FaultKind::Truncate(v.get("arg")?.as_u64()? as usize),
        "flap" => FaultKind::Replace(match v.get("arg")? {
            Value::String(s) => s.as_bytes().to_vec(),
            Value::Object(o) => o
                .get("bytes")?
                .as_array()?
                .iter()
                .map(|b| b.as_u64().unwrap_or(0) as u8)
                .collect(),
            _ => return None,
        }),
        _ => return None,
    };
    Some(Fault {
        path: PathBuf::from(v.get("path")?.as_str()?),
        nth: v.get("nth")?.as_u64()? as u32,
        op: match v.get("op")?.as_str()? {
            "read" => Op::Read,
            "write_data" => Op::WriteData,
            _ => Op::Write,
        },
        kind,
    })
}

impl Case {
    pub fn to_json(&self) -> Value {
        json!({
            "engine": "envsim",
            "project": self.project.to_json(),
            "faults": self.faults.iter().map(fault_to_json).collect::<Vec<_>>(),
            "pipeline": self.pipeline,
            "entropy_seed": format!("{:#x}", self.entropy_seed),
            "shape": self.shape,
        })
    }
    pub fn from_json(v: &Value) -> Option<Case> {
        Some(Case {
            project: Project::from_json(v.get("project")?)?,
            faults: v
                .get("faults")?
                .as_array()?
                .iter()
                .map(fault_from_json)
                .collect::<Option<Vec<_>>>()?,
            pipeline: v.get("pipeline")?.as_str()?.to_string(),
            entropy_seed: v
                .get("entropy_seed")
                .and_then(|s| s.as_str())
                .and_then(parse_u64)?,
            shape: v
                .get("shape")
                .and_then(|s| s.as_str())
                .unwrap_or("")
                .to_string(),
        })
    }
}

// ---------------------------------------------------------------------------------------
// Workload generation: import graphs x fragments x fault plans
// ---------------------------------------------------------------------------------------

const FILE_NAMES: &[&str] = &["main.asm", "b.asm", "c.asm", "sub/d.asm"];

fn spell(rng: &mut Rng, from: &str, to: &str) -> String {
    // path of `to` relative to the directory of `from`, with a random spelling
    let from_in_sub = from.starts_with("sub/");
    let base = match (from_in_sub, to.starts_with("sub/")) {
        (false, _) => to.to_string(),
        (true, true) => to.trim_start_matches("sub/").to_string(),
        (true, false) => format!("../{}", to),
    };
    match rng.below(8) {
        0 => format!("./{}", base),
        1 => format!("sub/../{}", base),
        2 => base.replace('/', "\\"),
        3 => format!(".\\{}", base.replace('/', "\\")),
        _ => base,
    }
}

fn import_line(rng: &mut Rng, target: &str, idx: usize) -> String {
    match rng.below(6) {
        0 => format!(".import * as ns{} from \"{}\"\n", idx, target),
        1 => format!(".import foo from \"{}\"\n", target),
        2 => format!(".import foo as bar{} from \"{}\"\n", idx, target),
        3 => format!(
            ".import * from \"{}\" {{\n    .const PARAM = {}\n}}\n",
            target, idx
        ),
        _ => format!(".import * from \"{}\"\n", target),
    }
}

pub fn gen_case(seed: u64, k: u64) -> Case {
    let mut rng = Rng::new(rng::derive(seed, "envsim.case", k));
    let n_files = rng.range(1, 4);
    let names: Vec<&str> = FILE_NAMES[..n_files].to_vec();
    // edges: adjacency incl. self loops, cycles, diamonds, missing targets
    let density = rng.range(1, 4);
    let mut edges: Vec<(usize, String, bool)> = vec![]; // (from, target name, exists)
    for i in 0..n_files {
        for j in 0..n_files {
            let p = if i == j {
                1
            } else if j > i {
                density + 1
            } else {
                density
            };
            if rng.chance(p as u32, 8) {
                edges.push((i, names[j].to_string(), true));
            }
        }
        if rng.chance(1, 6) {
            edges.push((i, format!("missing{}.asm", i), false));
        }
        if rng.chance(1, 10) {
            // same file twice
            if let Some(e) = edges.iter().rev().find(|e| e.0 == i && e.2).cloned() {
                edges.push(e);
            }
        }
    }
    // make sure main reaches something when there are several files
    if n_files > 1 && !edges.iter().any(|e| e.0 == 0 && e.2 && e.1 != "main.asm") {
        edges.push((0, names[1].to_string(), true));
    }
    let mut project = Project::new("");
    let mut shape = String::new();
    let mut uses_file = false;
    for (i, name) in names.iter().enumerate() {
        let mut body = String::new();
        let n_frag = rng.range(1, 2);
        for _ in 0..n_frag {
            let f = if rng.chance(1, 3) {
                rng.pick(boundary()).clone()
            } else {
                rng.pick(fragments()).clone()
            };
            if f.contains(".file") {
                uses_file = true;
            }
            body.push_str(&f);
            if !body.ends_with('\n') {
                body.push('\n');
            }
        }
        let mut imports = String::new();
        for (idx, (from, to, _)) in edges.iter().enumerate() {
            if *from == i {
                let target = spell(&mut rng, name, to);
                imports.push_str(&import_line(&mut rng, &target, idx));
                shape.push_str(&format!("{}>{};", i, to));
            }
        }
        let text = match rng.below(3) {
            0 => format!("{}{}", imports, body),
            1 => format!("{}{}", body, imports),
            _ => {
                // imports in the middle
                let cut = body
                    .char_indices()
                    .filter(|(_, c)| *c == '\n')
                    .map(|(i, _)| i + 1)
                    .next()
                    .unwrap_or(0);
                format!("{}{}{}", &body[..cut], imports, &body[cut..])
            }
        };
        project.files.insert(name.to_string(), text.into_bytes());
    }
    // rarely (it is expensive): a long, non-circular chain of files each importing the next one
    if rng.chance(1, 100) {
        let n = *rng.pick(&[60usize, 100, 800]);
        for i in 1..=n {
            let text = if i < n {
                format!("dl{}: nop\n.import * from \"c{}.asm\"\n", i, i + 1)
            } else {
                "dl_last: nop\n".to_string()
            };
            project
                .files
                .insert(format!("deep/c{}.asm", i), text.into_bytes());
        }
        // nothing else in such a project: every pass over a long chain is slow, a fragment that needs hundreds
        // of passes would make the case take minutes
        project.files.retain(|k, _| k.starts_with("deep/"));
        project.files.insert(
            "main.asm".into(),
            b"start: nop\n.import * from \"deep/c1.asm\"\n".to_vec(),
        );
        shape = format!("chain{};", n);
    }
    // rarely: something nested very deeply (a generated table of parentheses, a machine-written source). Every
    // recursive descent - parser, both assembling modes, formatter, listing, dropping the tree - sees it. These
    // cases run on the 8 MiB stack of the real main thread.
    if !shape.starts_with("chain") && rng.chance(1, 50) {
        // (14 and 24: deep enough for a parser that backtracks exponentially in the depth to pass its budget,
        // shallow enough for every stack)
        let depth = *rng.pick(&[14usize, 24, 24, 40, 400, 3_000, 40_000]);
        let kind = rng.below(19);
        // (an identifier path of 40 000 components costs a second or more per pass - quadratic, not a verdict - and
        // a project that needs 256 passes then sits on a worker for minutes: the thorough tier met two of those)
        let depth = if kind == 15 { depth.min(2_000) } else { depth };
        let (open, mid, close): (&str, &str, &str) = match kind {
            0 => ("(", "1", ")"),
            1 => ("{", " nop ", "}"),
            2 => ("-", "1", ""),
            3 => ("!", "1", ""),
            4 => (".if 1 {", " nop ", "}"),
            5 => (".loop 1 {", " nop ", "}"),
            6 => ("<", "$1234", ""),
            7 => ("[", "1", "]"),
            // the same, with something unparsable in the innermost place: all the way back out
            9 => ("(", "1 $ ", ")"),
            10 => ("{", " lda # ", "}"),
            // nested calls
            11 => ("max(", "1", ")"),
            12 => ("m(", "", ")"),
            // not nested at all in the source, but a tree as deep as the chain is long: 1+1+1+...
            13 => ("1+", "1", ""),
            14 => ("1*", "1", ""),
            15 => ("a.", "a", ""),
            16 => ("1,", "1", ""),
            _ => (".segment \"default\" {", " nop ", "}"),
        };
        let prefix = if matches!(kind, 0 | 2 | 3 | 6 | 7 | 9 | 11) {
            "lda #"
        } else if matches!(kind, 13..=16) {
            ".byte "
        } else {
            ""
        };
        let nested = if kind >= 17 {
            // nested AND long: every level of parentheses (or call arguments) carries a chain of its own, each chain
            // shorter than any limit on a single chain, the whole far longer
            let levels = match depth {
                14 => 2,
                24 => 4,
                40 => 8,
                400 => 32,
                _ => 60,
            };
            let chain = "+1".repeat(1000);
            let mut e = format!("1{}", chain);
            for _ in 0..levels {
                e = if kind == 17 { format!("({}){}", e, chain) } else { format!("max({}, 2){}", e, chain) };
            }
            format!(".byte {}\n", e)
        } else {
            format!("{}{}{}{}\n", prefix, open.repeat(depth), mid, close.repeat(depth))
        };
        let target = names[rng.below(names.len())].to_string();
        if let Some(f) = project.files.get_mut(&target) {
            f.extend_from_slice(nested.as_bytes());
        }
        shape.push_str(&format!("nest{}x{};", kind, depth));
    }
    if uses_file || rng.chance(1, 10) {
        if rng.chance(3, 4) {
            project
                .files
                .insert("data.bin".into(), vec![1, 2, 3, 0xff, 0xfe]);
        }
    }
    project.toml = match rng.below(6) {
        0 => String::new(),
        1 => "[build]\nentry = \"main.asm\"\nlisting = true\nsymbols = [\"vice\"]\noutput-format = \"bin\"\n".into(),
        2 => "[build]\nentry = \"main.asm\"\noutput-format = \"prg\"\nlisting = true\n".into(),
        _ => "[build]\nentry = \"main.asm\"\nlisting = true\nsymbols = [\"vice\"]\n".into(),
    };
    // rarely the place where the output should go is taken: `target` exists as a regular file
    if rng.chance(1, 40) {
        project.files.insert("target".into(), b"not a directory\n".to_vec());
    }
    // one project in six carries formatting / listing options, half of them at the edges of their ranges
    if !project.toml.is_empty() && rng.chance(1, 6) {
        let extra = *rng.pick(&[
            "\n[formatting]\nlisting.num-bytes-per-line = 0\n",
            "\n[formatting]\nlisting.num-bytes-per-line = 1\n",
            "\n[formatting]\nlisting.num-bytes-per-line = 100000\n",
            "\n[formatting]\nwhitespace.label-margin = 100000\n",
            "\n[formatting]\nwhitespace.label-margin = 0\nwhitespace.code-margin = 0\nwhitespace.indent = 0\n",
            "\n[formatting]\nwhitespace.code-margin = 100000\nwhitespace.indent = 100000\n",
            "\n[formatting]\nwhitespace.label-alignment = \"left\"\nbraces.position = \"new-line\"\nmnemonics.casing = \"uppercase\"\nmnemonics.register-casing = \"uppercase\"\n",
            "\n[formatting]\nwhitespace.indent = 2\nwhitespace.label-margin = 8\nwhitespace.code-margin = 12\n",
        ]);
        project.toml.push_str(extra);
    }
    // fault plan
    let mut faults = vec![];
    let n_faults = match rng.below(10) {
        0..=3 => 0,
        4..=7 => 1,
        8 => 2,
        _ => 3,
    };
    let mut targets: Vec<String> = project.files.keys().cloned().collect();
    targets.push("mos.toml".into());
    for _ in 0..n_faults {
        let t = rng.pick(&targets).clone();
        let path = disk::normalize(&Path::new(WS).join(&t));
        let content = project.files.get(&t).cloned().unwrap_or_default();
        let nth = *rng.pick(&[1u32, 1, 2, 2, 3, 4, 0]);
        let kind = match rng.below(11) {
            0 => FaultKind::NotFound,
            1 => FaultKind::PermissionDenied,
            2 => FaultKind::IsADirectory,
            3 => FaultKind::IoError,
            4 => FaultKind::Interrupted,
            5 | 6 => FaultKind::Truncate(if content.is_empty() {
                0
            } else {
                rng.below(content.len())
            }),
            7 => FaultKind::Replace(vec![]),
            8 => FaultKind::Replace(vec![b'l', b'd', b'a', b' ', 0xff, 0xfe, 0xc3]),
            9 => {
                // a different fragment appears (the editor saved in between)
                FaultKind::Replace(rng.pick(fragments()).clone().into_bytes())
            }
            _ => {
                // multi-byte character cut in half
                let mut b = "lda #1 // \u{2713}\u{e9}".as_bytes().to_vec();
                b.truncate(b.len() - 1);
                FaultKind::Replace(b)
            }
        };
        faults.push(Fault {
            path,
            nth,
            op: Op::Read,
            kind,
        });
    }
    if rng.chance(1, 12) {
        // output side: the target directory / output files cannot be written
        let path = disk::normalize(&Path::new(WS).join(rng.pick_str(&[
            "target/main.prg",
            "target/main.bin",
            "target/main.lst",
            "target/main.vs",
            "target/a.bin",
            "target/b.bin",
            "target/foo.bin",
        ])));
        faults.push(Fault {
            path,
            nth: 0,
            op: Op::Write,
            kind: if rng.chance(1, 2) {
                FaultKind::NoSpace
            } else {
                FaultKind::PermissionDenied
            },
        });
    }
    if rng.chance(1, 12) {
        // the output file can be created, but a write to it fails (disk full, I/O error)
        let path = disk::normalize(&Path::new(WS).join(rng.pick_str(&[
            "target/main.prg",
            "target/main.bin",
            "target/main.lst",
            "target/main.vs",
            "target/a.bin",
            "target/b.bin",
            "target/foo.bin",
        ])));
        faults.push(Fault {
            path,
            nth: *rng.pick(&[0u32, 1, 2]),
            op: Op::WriteData,
            kind: if rng.chance(1, 2) {
                FaultKind::NoSpace
            } else {
                FaultKind::IoError
            },
        });
    }
    let pipeline = rng.pick_str(PIPELINES).to_string();
    if pipeline == "format" && rng.chance(1, 6) {
        // `mos format` rewrites the source files in place: they may not be writable
        let t = rng.pick(&targets).clone();
        let path = disk::normalize(&Path::new(WS).join(&t));
        faults.push(Fault {
            path,
            nth: *rng.pick(&[0u32, 1]),
            op: Op::Write,
            kind: if rng.chance(1, 2) {
                FaultKind::PermissionDenied
            } else {
                FaultKind::NoSpace
            },
        });
    }
    if pipeline == "format" && rng.chance(1, 6) {
        // ... or they can be opened, but the disk fills up while the new contents are written
        let t = rng.pick(&targets).clone();
        let path = disk::normalize(&Path::new(WS).join(&t));
        faults.push(Fault {
            path,
            nth: *rng.pick(&[0u32, 1]),
            op: Op::WriteData,
            kind: if rng.chance(1, 2) {
                FaultKind::NoSpace
            } else {
                FaultKind::IoError
            },
        });
    }
    Case {
        project,
        faults,
        pipeline,
        entropy_seed: rng::derive(seed, "envsim.entropy", k),
        shape,
    }
}

// ---------------------------------------------------------------------------------------
// Execution and oracle
// ---------------------------------------------------------------------------------------

#[derive(Clone, Debug)]
pub struct Found {
    pub class: String,
    pub sig: String,
    pub message: String,
}

#[derive(Clone, Debug, Default)]
pub struct RunStats {
    pub faults_fired: BTreeMap<String, u64>,
    pub max_passes: u64,
    pub max_work: u64,
    pub max_parse_ratio: u64,
    pub max_lookups: u64,
    pub invocations: u64,
    pub diagnostics: u64,
    pub produced_output: bool,
    pub result: String,
    pub reads: u64,
    pub labels_checked: u64,
    pub files_involved: u64,
}

fn short_loc(loc: &str) -> String {
    let l = loc.trim_start_matches("/repo/");
    // registry paths: keep crate/file
    if let Some(i) = l.find("/registry/src/") {
        let rest = &l[i + 14..];
        return rest.splitn(2, '/').nth(1).unwrap_or(rest).to_string();
    }
    l.to_string()
}

/// Check every label of every diagnostic: it must map, without panicking, into a
/// file of the code map whose name is a path of the project.
fn check_locations(
    d: &Diagnostics,
    project_paths: &BTreeSet<PathBuf>,
    stats: &mut RunStats,
) -> Option<Found> {
    for diag in d.iter() {
        for label in &diag.labels {
            stats.labels_checked += 1;
            let cm = match d.code_map() {
                Some(cm) => cm,
                None => {
                    return Some(Found {
                        class: "location_without_code_map".into(),
                        sig: "location:no_code_map".into(),
                        message: format!(
                            "diagnostic '{}' carries a label but no code map to resolve it",
                            diag.message
                        ),
                    })
                }
            };
            let r = std::panic::catch_unwind(std::panic::AssertUnwindSafe(|| {
                let sl = cm.look_up_span(label.file_id);
                (
                    sl.file.name().to_string(),
                    sl.begin.line,
                    sl.end.line,
                    sl.file.num_lines(),
                )
            }));
            match r {
                Err(_) => {
                    let p = panics::peek();
                    let loc = p.last().map(|p| short_loc(&p.location)).unwrap_or_default();
                    return Some(Found {
                        class: "location_outside_code_map".into(),
                        sig: format!("location:lookup_panics@{}", loc),
                        message: format!("the location of diagnostic '{}' cannot be resolved: look_up_span panicked at {}", diag.message, loc),
                    });
                }
                Ok((name, bl, el, nl)) => {
                    let p = disk::normalize(Path::new(&name));
                    if !project_paths.contains(&p) {
                        return Some(Found {
                            class: "location_outside_project".into(),
                            sig: "location:file_not_in_project".into(),
                            message: format!("diagnostic '{}' is located in '{}', which is not a file of the project", diag.message, name),
                        });
                    }
                    if bl > el || el > nl {
                        return Some(Found {
                            class: "location_outside_file".into(),
                            sig: "location:line_out_of_file".into(),
                            message: format!(
                                "diagnostic '{}' at lines {}..{} of '{}' which has {} lines",
                                diag.message, bl, el, name, nl
                            ),
                        });
                    }
                }
            }
        }
    }
    None
}

fn panic_found(pipeline: &str, stage: &str) -> Found {
    let p = panics::peek();
    if let Some(b) = p
        .iter()
        .find(|p| p.message.contains(mos_simrt::disk::READ_BUDGET_MARKER))
    {
        return Found {
            class: "nonterminating_file_loop".into(),
            sig: "nonterminating:file_reads".into(),
            message: format!(
                "pipeline {} does not terminate: {} (decided on the logical clock of file reads, budget {})",
                pipeline, b.message, READ_BUDGET
            ),
        };
    }
    if let Some(b) = p
        .iter()
        .find(|p| p.message.contains(passwatch::WORK_BUDGET_MARKER))
    {
        return Found {
            class: "nonterminating_expansion".into(),
            sig: "nonterminating:expansion".into(),
            message: format!("pipeline {} does not terminate in any useful sense: {} (decided on the logical clock of emitted tokens)", pipeline, b.message),
        };
    }
    if let Some(b) = p
        .iter()
        .find(|p| p.message.contains(passwatch::LOOKUP_BUDGET_MARKER))
    {
        return Found {
            class: "nonterminating_expansion".into(),
            sig: "nonterminating:lookups".into(),
            message: format!("pipeline {} does not terminate in any useful sense: {} (decided on the logical clock of symbol lookup steps)", pipeline, b.message),
        };
    }
    if let Some(b) = p
        .iter()
        .find(|p| p.message.contains(passwatch::PARSE_BUDGET_MARKER))
    {
        return Found {
            class: "nonterminating_parse".into(),
            sig: "nonterminating:parse".into(),
            message: format!("pipeline {} does not terminate in any useful sense: {} (decided on the logical clock of parse attempts: the budget is {} + {} per byte of the file)", pipeline, b.message, passwatch::PARSE_BUDGET_BASE, passwatch::PARSE_BUDGET_PER_BYTE),
        };
    }
    let last = p.last();
    let loc = last
        .map(|p| short_loc(&p.location))
        .unwrap_or_else(|| "<unknown>".into());
    Found {
        class: "panic".into(),
        sig: format!("panic:{}@{}", stage, loc),
        message: format!(
            "pipeline {} panicked in {}: {} at {}",
            pipeline,
            stage,
            last.map(|p| p.message.clone()).unwrap_or_default(),
            loc
        ),
    }
}

fn check_error(
    e: &anyhow::Error,
    paths: &BTreeSet<PathBuf>,
    stats: &mut RunStats,
    pipeline: &str,
) -> Option<Found> {
    if let Some(d) = e.downcast_ref::<Diagnostics>() {
        stats.diagnostics += d.len() as u64;
        if d.is_empty() {
            return Some(Found {
                class: "error_without_diagnostic".into(),
                sig: format!("no_diagnostic:{}", pipeline),
                message: format!("pipeline {} failed but reported no diagnostic", pipeline),
            });
        }
        if let Some(f) = check_locations(d, paths, stats) {
            return Some(f);
        }
    } else {
        stats.diagnostics += 1;
    }
    // what the CLI does with the error: render it (must not crash either)
    let r = std::panic::catch_unwind(std::panic::AssertUnwindSafe(|| {
        let e2 = match e.downcast_ref::<Diagnostics>() {
            Some(d) => {
                let (mut em, buf) = DiagnosticEmitter::buffered(DisplayStyle::Rich);
                em.emit_diagnostics(d);
                drop(em);
                let n = buf.lock().unwrap().len();
                n
            }
            None => e.to_string().len(),
        };
        e2
    }));
    match r {
        Err(_) => return Some(panic_found(pipeline, "diagnostic_emitter")),
        Ok(0) => {
            return Some(Found {
                class: "error_without_diagnostic".into(),
                sig: format!("empty_rendering:{}", pipeline),
                message: format!(
                    "pipeline {} failed and the rendered diagnostics are empty",
                    pipeline
                ),
            })
        }
        Ok(_) => {}
    }
    // fault: the stream the diagnostics go to fails part-way (`mos build | head -1`, a full disk behind a
    // redirection): the command may lose output, it must not crash
    if let Some(d) = e.downcast_ref::<Diagnostics>() {
        let (good, os_error) = STDOUT_FAULT.with(|f| f.get());
        if os_error != 0 {
            *stats
                .faults_fired
                .entry(if os_error == 32 {
                    "stdout_epipe".to_string()
                } else {
                    "stdout_enospc".to_string()
                })
                .or_insert(0) += 1;
            let r = std::panic::catch_unwind(std::panic::AssertUnwindSafe(|| {
                let mut em = DiagnosticEmitter::failing_after(DisplayStyle::Rich, good, os_error);
                em.emit_diagnostics(d);
            }));
            if r.is_err() {
                return Some(panic_found(
                    pipeline,
                    "diagnostic_emitter(failing output stream)",
                ));
            }
        }
    }
    None
}

thread_local! {
    /// (bytes accepted before the failure, errno; 0 = no fault) for the run in progress
    static STDOUT_FAULT: std::cell::Cell<(usize, i32)> = const { std::cell::Cell::new((0, 0)) };
}

pub fn execute(c: &Case, stats: &mut RunStats) -> Option<Found> {
    entropy::set_seed(Some(c.entropy_seed));
    // one project in thirty lives in a directory whose name is not valid UTF-8 (legal on Unix)
    let root = root_of(c);
    env::set_cwd(Some(root.clone()));
    let mut d = c.project.disk_at(&root);
    d.faults = c
        .faults
        .iter()
        .cloned()
        .map(|mut f| {
            if let Ok(rel) = f.path.strip_prefix(WS) {
                f.path = disk::normalize(&root.join(rel));
            }
            f
        })
        .collect();
    // logical clock for loops over the file system (import discovery). Not small: a macro that imports a file
    // 32 levels deep, in a project whose passes only end at the cap of 256, legitimately reads 10 000 times
    // (a budget of 6 000 was a false alarm under VERIF_SEED=1, found by a seed sweep)
    d.read_budget = Some(read_budget());
    let paths: BTreeSet<PathBuf> = d.files.keys().cloned().collect();
    disk::install(d);
    passwatch::install();
    // one run in four also renders its diagnostics to a stream that fails after 0..400 bytes
    let sf = rng::derive(c.entropy_seed, "envsim.stdout_fault", 0);
    STDOUT_FAULT.with(|f| {
        f.set(if sf % 4 == 0 {
            (
                ((sf >> 8) % 400) as usize,
                if (sf >> 4) % 2 == 0 { 32 } else { 28 },
            )
        } else {
            (0, 0)
        })
    });
    let found = execute_inner(c, &root, &paths, stats);
    let ps = passwatch::uninstall();
    stats.max_passes = ps.max_passes as u64;
    stats.max_work = ps.max_work;
    stats.max_parse_ratio = ps.max_parse_ratio;
    stats.max_lookups = ps.max_lookups;
    stats.invocations = ps.invocations;
    let d = disk::uninstall().unwrap();
    for (k, v) in &d.fired {
        *stats.faults_fired.entry(k.to_string()).or_insert(0) += *v as u64;
    }
    stats.reads = d.reads as u64;
    stats.files_involved = d.read_counts.len() as u64;
    stats.produced_output = !d.written.is_empty();
    env::set_cwd(None);
    entropy::set_seed(None);
    found
}

fn nonterm(pipeline: &str, v: &str) -> Found {
    Found {
        class: "nonterminating_pass_loop".into(),
        sig: format!("nonterminating:{}", v.split('(').next().unwrap_or(v)),
        message: format!(
            "pipeline {}: the pass loop does not terminate ({}, decided on the logical clock)",
            pipeline, v
        ),
    }
}

fn root_of(c: &Case) -> PathBuf {
    use std::os::unix::ffi::OsStringExt;
    if rng::derive(c.entropy_seed, "envsim.root", 0) % 30 == 0 {
        PathBuf::from(std::ffi::OsString::from_vec(b"/w\xffs".to_vec()))
    } else {
        PathBuf::from(WS)
    }
}

fn execute_inner(
    c: &Case,
    root: &Path,
    paths: &BTreeSet<PathBuf>,
    stats: &mut RunStats,
) -> Option<Found> {
    let cfg = if c.project.toml.is_empty() {
        Config::default()
    } else {
        match std::panic::catch_unwind(|| Config::from_toml(&c.project.toml)) {
            Ok(Ok(c)) => c,
            Ok(Err(_)) => Config::default(),
            Err(_) => return Some(panic_found(&c.pipeline, "config")),
        }
    };
    match c.pipeline.as_str() {
        "build" => {
            let r = std::panic::catch_unwind(std::panic::AssertUnwindSafe(|| {
                build_command(root, &cfg)
            }));
            if let Some(v) = passwatch::take_verdict() {
                return Some(nonterm("build", &v));
            }
            match r {
                Err(_) => Some(panic_found("build", "build_command")),
                Ok(Ok(())) => {
                    stats.result = "ok".into();
                    // an I/O error while writing the binary must not be swallowed
                    let failed: Vec<String> = disk::with(|d| {
                        d.data_write_failures
                            .iter()
                            .map(|p| p.to_string_lossy().to_string())
                            .filter(|p| !p.ends_with(".lst") && !p.ends_with(".vs"))
                            .collect()
                    })
                    .unwrap_or_default();
                    if !failed.is_empty() {
                        return Some(Found {
                            class: "silent_write_failure".into(),
                            sig: "silent_write_failure:build".into(),
                            message: format!("build reported success although writing the binary {:?} failed: neither a complete binary nor a diagnostic", failed),
                        });
                    }
                    // a binary must have been written
                    let wrote = disk::with(|d| {
                        d.written.iter().any(|p| {
                            !p.to_string_lossy().ends_with(".lst")
                                && !p.to_string_lossy().ends_with(".vs")
                        })
                    })
                    .unwrap_or(false);
                    if !wrote {
                        return Some(Found {
                            class: "neither_binary_nor_diagnostic".into(),
                            sig: "no_output:build".into(),
                            message:
                                "build succeeded without writing a binary and without a diagnostic"
                                    .into(),
                        });
                    }
                    None
                }
                Ok(Err(e)) => {
                    stats.result = "err".into();
                    check_error(&e, paths, stats, "build")
                }
            }
        }
        "analysis" => {
            let entry = cfg.build.input_path(root);
            let r = std::panic::catch_unwind(std::panic::AssertUnwindSafe(|| {
                let (tree, perr) =
                    mos_core::parser::parse(&entry, FileSystemParsingSource::new().into());
                let mut found = None;
                let mut ndiag = perr.len();
                let mut st2 = RunStats::default();
                if let Some(f) = check_locations(&perr, paths, &mut st2) {
                    found = Some(f);
                }
                let mut result = "parse_failed";
                if let Some(tree) = tree {
                    let (ctx, cerr) = codegen(
                        tree.clone(),
                        CodegenOptions {
                            enable_greedy_analysis: true,
                            ..Default::default()
                        },
                    );
                    ndiag += cerr.len();
                    if found.is_none() {
                        found = check_locations(&cerr, paths, &mut st2);
                    }
                    result = if ctx.is_some() {
                        "context"
                    } else {
                        "no_context"
                    };
                    if ctx.is_none() && perr.is_empty() && cerr.is_empty() && found.is_none() {
                        found = Some(Found {
                            class: "neither_binary_nor_diagnostic".into(),
                            sig: "no_output:analysis".into(),
                            message: "analysis produced neither a context nor a diagnostic".into(),
                        });
                    }
                    if let Some(ctx) = &ctx {
                        // listing generation and formatting of every file of the tree
                        let _ = mos_core::io::to_listing(ctx, 8);
                        let _ = mos_core::io::to_vice_symbols(ctx.symbols());
                    }
                    if perr.is_empty() {
                        for file in tree.files.keys() {
                            let _ =
                                mos_core::formatting::format(file, tree.clone(), cfg.formatting);
                        }
                    }
                } else if perr.is_empty() {
                    found = Some(Found {
                        class: "neither_binary_nor_diagnostic".into(),
                        sig: "no_output:parse".into(),
                        message: "parse produced neither a tree nor a diagnostic".into(),
                    });
                }
                (found, ndiag, st2.labels_checked, result)
            }));
            if let Some(v) = passwatch::take_verdict() {
                return Some(nonterm("analysis", &v));
            }
            match r {
                Err(_) => Some(panic_found("analysis", "parse/codegen/listing/format")),
                Ok((found, ndiag, labels, result)) => {
                    stats.diagnostics += ndiag as u64;
                    stats.labels_checked += labels;
                    stats.result = result.into();
                    found
                }
            }
        }
        "lsp" => {
            let main_path = disk::normalize(&root.join("main.asm"));
            let main_text = disk::with(|d| d.files.get(&main_path).cloned()).flatten();
            // Between the analysis at start-up and the one triggered by didOpen the disk changes under the
            // server (a file of the project is deleted, cut to its first line or rewritten outside the editor).
            // Only when no planned fault alters what a read returns, so that "the file as it is now" is defined.
            let content_faults = c
                .faults
                .iter()
                .any(|f| matches!(f.kind, FaultKind::Truncate(_) | FaultKind::Replace(_)));
            let mutation = rng::derive(c.entropy_seed, "envsim.lsp.disk_mutation", 0);
            let victims: Vec<PathBuf> = disk::with(|d| {
                d.files
                    .keys()
                    .filter(|p| {
                        **p != main_path && p.extension().map(|e| e == "asm").unwrap_or(false)
                    })
                    .cloned()
                    .collect()
            })
            .unwrap_or_default();
            let r = std::panic::catch_unwind(std::panic::AssertUnwindSafe(|| {
                let mut ctx = LspContext::new();
                let client = ctx.listen_memory_verif();
                let mut server = LspServer::new(ctx);
                let mut published: Vec<(String, u64, String)> = vec![];
                if !content_faults && !victims.is_empty() && mutation % 2 == 0 {
                    let v = victims[(mutation / 2 % victims.len() as u64) as usize].clone();
                    disk::with(|d| match (mutation / 64) % 3 {
                        0 => {
                            d.files.remove(&v);
                            d.log.push(format!(
                                "lsp pipeline: {} deleted after start-up",
                                v.display()
                            ));
                        }
                        1 => {
                            let first: Vec<u8> = d
                                .files
                                .get(&v)
                                .map(|b| {
                                    b.split_inclusive(|c| *c == b'\n')
                                        .next()
                                        .unwrap_or(&[])
                                        .to_vec()
                                })
                                .unwrap_or_default();
                            d.files.insert(v.clone(), first);
                            d.log.push(format!(
                                "lsp pipeline: {} cut to its first line after start-up",
                                v.display()
                            ));
                        }
                        _ => {
                            d.files.insert(v.clone(), b"nop\n".to_vec());
                            d.log.push(format!(
                                "lsp pipeline: {} rewritten after start-up",
                                v.display()
                            ));
                        }
                    });
                }
                if let Some(Ok(t)) = main_text.map(String::from_utf8) {
                    let uri = lsp_types::Url::from_file_path(root.join("main.asm")).unwrap();
                    let msg = lsp_server::Message::Notification(lsp_server::Notification {
                        method: "textDocument/didOpen".into(),
                        params: json!({"textDocument": {"uri": uri.to_string(), "languageId": "asm", "version": 0, "text": t}}),
                    });
                    let res = server.handle_message(msg);
                    while let Ok(m) = client.receiver.try_recv() {
                        if let lsp_server::Message::Notification(nf) = m {
                            let uri = nf
                                .params
                                .get("uri")
                                .and_then(|u| u.as_str())
                                .unwrap_or("")
                                .to_string();
                            for dg in nf
                                .params
                                .get("diagnostics")
                                .and_then(|d| d.as_array())
                                .cloned()
                                .unwrap_or_default()
                            {
                                let line = dg
                                    .get("range")
                                    .and_then(|r| r.get("end"))
                                    .and_then(|e| e.get("line"))
                                    .and_then(|l| l.as_u64())
                                    .unwrap_or(0);
                                published.push((
                                    uri.clone(),
                                    line,
                                    dg.get("message")
                                        .and_then(|m| m.as_str())
                                        .unwrap_or("")
                                        .to_string(),
                                ));
                            }
                        }
                    }
                    return (res.map_err(|e| e.to_string()), published);
                }
                (Ok(()), published)
            }));
            if let Some(v) = passwatch::take_verdict() {
                return Some(nonterm("lsp", &v));
            }
            match r {
                Err(_) => Some(panic_found("lsp", "LspServer::new/didOpen")),
                Ok((Err(e), _)) => Some(Found {
                    class: "lsp_error".into(),
                    sig: "lsp:handle_message_err".into(),
                    message: format!("didOpen made handle_message return Err (the server's main loop would exit): {}", e),
                }),
                Ok((Ok(()), published)) => {
                    stats.diagnostics += published.len() as u64;
                    stats.result = "ok".into();
                    if content_faults {
                        return None;
                    }
                    // every published location lies inside a file that exists NOW, within its current length
                    for (uri, line, message) in &published {
                        stats.labels_checked += 1;
                        let path = lsp_types::Url::parse(uri).ok().and_then(|u| u.to_file_path().ok()).map(|p| disk::normalize(&p));
                        let now: Option<Vec<u8>> = path.as_ref().and_then(|p| disk::with(|d| d.files.get(p).cloned()).flatten());
                        match now {
                            None => {
                                return Some(Found {
                                    class: "location_outside_project".into(),
                                    sig: "location:lsp:file_does_not_exist".into(),
                                    message: format!("pipeline lsp published the diagnostic '{}' for {} (line {}), which does not exist (any more) when it is published", message, uri, line),
                                });
                            }
                            Some(bytes) => {
                                let lines = bytes.iter().filter(|b| **b == b'\n').count() as u64 + 1;
                                if *line >= lines {
                                    return Some(Found {
                                        class: "location_outside_project".into(),
                                        sig: "location:lsp:line_beyond_file".into(),
                                        message: format!("pipeline lsp published the diagnostic '{}' at line {} of {}, which has {} line(s) when it is published", message, line, uri, lines),
                                    });
                                }
                            }
                        }
                    }
                    None
                }
            }
        }
        _ => {
            // The formatter rewrites the user's sources in place. When the command FAILS (a diagnostic, an I/O
            // error half-way, a panic) every source file must afterwards be either what it was or what a run
            // without faults makes of it - not empty, not half written. (What a successful run does to the text is
            // the formatter's own correctness, property C12. Only when no planned fault alters what a read
            // returns, so that "what it was" is what the formatter saw.)
            let content_faults = c
                .faults
                .iter()
                .any(|f| matches!(f.kind, FaultKind::Truncate(_) | FaultKind::Replace(_)));
            let snapshot = || -> BTreeMap<PathBuf, Vec<u8>> {
                disk::with(|d| {
                    d.files
                        .iter()
                        .filter(|(p, _)| p.extension().map(|e| e == "asm").unwrap_or(false))
                        .map(|(p, b)| (p.clone(), b.clone()))
                        .collect()
                })
                .unwrap_or_default()
            };
            let before = snapshot();
            let r = std::panic::catch_unwind(std::panic::AssertUnwindSafe(|| format_command(&cfg)));
            let outcome = match &r {
                Err(_) => "a panic",
                Ok(Ok(())) => "success",
                Ok(Err(_)) => "an error",
            };
            if !content_faults && outcome != "success" {
                let after = snapshot();
                if before.iter().any(|(p, b)| after.get(p) != Some(b)) {
                    // the same command on the same files without any fault: what "formatted" means
                    let faulty = disk::uninstall();
                    disk::install(c.project.disk_at(root));
                    let clean_ok = matches!(std::panic::catch_unwind(std::panic::AssertUnwindSafe(|| format_command(&cfg))), Ok(Ok(())));
                    let formatted = if clean_ok { snapshot() } else { BTreeMap::new() };
                    disk::uninstall();
                    if let Some(f) = faulty {
                        disk::install(f);
                    }
                    for (p, b) in &before {
                        stats.labels_checked += 1;
                        let a = after.get(p);
                        if a != Some(b) && (a.is_none() || a != formatted.get(p)) {
                            return Some(Found {
                                class: "source_destroyed".into(),
                                sig: "format:source_destroyed".into(),
                                message: format!(
                                    "pipeline format ended with {} and left {} as neither its original {} bytes nor the {} bytes a run without faults makes of it, but {}",
                                    outcome,
                                    p.display(),
                                    b.len(),
                                    formatted.get(p).map(|x| x.len().to_string()).unwrap_or_else(|| "(no)".into()),
                                    a.map(|x| format!("{} bytes", x.len())).unwrap_or_else(|| "nothing (the file is gone)".into()),
                                ),
                            });
                        }
                    }
                }
            }
            match r {
                Err(_) => Some(panic_found("format", "format_command")),
                Ok(Ok(())) => {
                    stats.result = "ok".into();
                    None
                }
                Ok(Err(e)) => {
                    stats.result = "err".into();
                    check_error(&e, paths, stats, "format")
                }
            }
        }
    }
}

fn run_case(c: &Case) -> (Option<Found>, RunStats) {
    let c2 = c.clone();
    // 8 MiB: the main-thread stack of the real process on Linux. The long-chain shape runs with 1 MiB, the
    // main-thread stack of the Windows binaries the project ships: recursion that is proportional to the
    // length of an import chain overflows it ten times sooner, which keeps these (expensive) cases small.
    let stack = if c.shape.contains("chain") {
        1 << 20
    } else {
        8 << 20
    };
    let r = fresh_thread(stack, move || {
        let mut st = RunStats::default();
        let f = execute(&c2, &mut st);
        (f, st)
    });
    match r {
        Ok(x) => x,
        Err(p) => (
            Some(Found {
                class: "harness_panic".into(),
                sig: format!(
                    "harness_panic@{}",
                    p.first()
                        .map(|p| short_loc(&p.location))
                        .unwrap_or_default()
                ),
                message: format!("panic outside the code under test: {:?}", p.first()),
            }),
            RunStats::default(),
        ),
    }
}

fn found_json(f: &Found) -> Value {
    json!({"class": f.class, "sig": f.sig, "message": f.message})
}
fn found_from_json(v: &Value) -> Option<Found> {
    Some(Found {
        class: v.get("class")?.as_str()?.to_string(),
        sig: v.get("sig")?.as_str()?.to_string(),
        message: v.get("message")?.as_str()?.to_string(),
    })
}

fn run_isolated_case(cli: &Cli, c: &Case) -> Option<Found> {
    match run_isolated(cli, &c.to_json(), 120) {
        Ok(Some(v)) => found_from_json(&v),
        Ok(None) => None,
        Err(how) => Some(Found {
            class: "process_death".into(),
            sig: format!("process_death:{}", how),
            message: format!(
                "the process died or deadlocked ({}) in pipeline {}",
                how, c.pipeline
            ),
        }),
    }
}

fn minimise(cli: &Cli, c: &Case, found: &Found) -> (Case, Found) {
    let sig = found.sig.clone();
    let same = |x: &Case| matches!(run_isolated_case(cli, x), Some(f) if f.sig == sig);
    let mut best = c.clone();
    if !same(&best) {
        return (best, found.clone());
    }
    // Every probe of a file-read loop runs into the budget, half a minute each. The probes of the minimiser get a
    // tenth of the budget (their child processes read it from the environment); what comes out is accepted only
    // if it still runs into the FULL budget, otherwise the case is reported as it was found.
    if sig.starts_with("nonterminating:file_reads") {
        std::env::set_var("VERIF_MINIMISER_READ_BUDGET", (READ_BUDGET / 10).to_string());
        let (small, _) = minimise_inner(cli, &best, found, &sig);
        std::env::remove_var("VERIF_MINIMISER_READ_BUDGET");
        return match run_isolated_case(cli, &small) {
            Some(f) if f.sig == sig => (small, f),
            _ => (best, found.clone()),
        };
    }
    minimise_inner(cli, &best, found, &sig)
}

fn minimise_inner(cli: &Cli, c: &Case, found: &Found, sig: &str) -> (Case, Found) {
    let same = |x: &Case| matches!(run_isolated_case(cli, x), Some(f) if f.sig == sig);
    let mut best = c.clone();
    // faults
    if !best.faults.is_empty() {
        let base = best.clone();
        let kept = ddmin(best.faults.clone(), &mut |fs: &[Fault]| {
            let mut x = base.clone();
            x.faults = fs.to_vec();
            same(&x)
        });
        let mut x = best.clone();
        x.faults = kept;
        if same(&x) {
            best = x;
        }
        let mut x = best.clone();
        x.faults.clear();
        if same(&x) {
            best = x;
        }
    }
    // files (a project of hundreds of files - the long-chain shape - is reported as it is: one isolated
    // run per file and per line would take an hour)
    let many_files = best.project.files.len() > 32;
    for n in best.project.files.keys().cloned().collect::<Vec<_>>() {
        if n == "main.asm" || many_files {
            continue;
        }
        let mut x = best.clone();
        x.project.files.remove(&n);
        if same(&x) {
            best = x;
        }
    }
    // lines
    for n in best.project.files.keys().cloned().collect::<Vec<_>>() {
        if many_files {
            break;
        }
        let text = match String::from_utf8(best.project.files[&n].clone()) {
            Ok(t) => t,
            Err(_) => continue,
        };
        let lines: Vec<String> = text.split_inclusive('\n').map(|s| s.to_string()).collect();
        if lines.len() < 2 {
            continue;
        }
        let base = best.clone();
        let kept = ddmin(lines, &mut |ls: &[String]| {
            let mut x = base.clone();
            x.project.files.insert(n.clone(), ls.concat().into_bytes());
            same(&x)
        });
        let mut x = best.clone();
        x.project
            .files
            .insert(n.clone(), kept.concat().into_bytes());
        if same(&x) {
            best = x;
        }
    }
    // toml
    for t in ["[build]\nentry = \"main.asm\"\n", ""] {
        let mut x = best.clone();
        x.project.toml = t.into();
        if same(&x) {
            best = x;
            break;
        }
    }
    let f = run_isolated_case(cli, &best)
        .filter(|f| f.sig == sig)
        .unwrap_or_else(|| found.clone());
    (best, f)
}

fn stats_json(agg: &Agg) -> Value {
    json!({
        "runs": agg.runs, "faults_fired": agg.faults_fired, "max_passes": agg.max_passes, "max_work": agg.max_work, "max_parse_ratio": agg.max_parse_ratio, "max_lookups": agg.max_lookups, "invocations": agg.invocations,
        "diagnostics": agg.diagnostics, "labels_checked": agg.labels_checked, "pipelines": agg.pipelines, "results": agg.results,
        "runs_with_fault_fired": agg.runs_with_fault, "reads": agg.reads, "max_reads": agg.max_reads, "pass_histogram": agg.pass_hist,
    })
}

#[derive(Default)]
struct Agg {
    runs: u64,
    faults_fired: BTreeMap<String, u64>,
    max_passes: u64,
    max_work: u64,
    max_parse_ratio: u64,
    max_lookups: u64,
    invocations: u64,
    diagnostics: u64,
    labels_checked: u64,
    pipelines: BTreeMap<String, u64>,
    results: BTreeMap<String, u64>,
    runs_with_fault: u64,
    reads: u64,
    max_reads: u64,
    pass_hist: BTreeMap<String, u64>,
}

impl Agg {
    fn add(&mut self, c: &Case, st: &RunStats) {
        self.runs += 1;
        for (k, v) in &st.faults_fired {
            *self.faults_fired.entry(k.clone()).or_insert(0) += v;
        }
        if !st.faults_fired.is_empty() {
            self.runs_with_fault += 1;
        }
        self.max_passes = self.max_passes.max(st.max_passes);
        self.max_work = self.max_work.max(st.max_work);
        self.max_parse_ratio = self.max_parse_ratio.max(st.max_parse_ratio);
        self.max_lookups = self.max_lookups.max(st.max_lookups);
        self.invocations += st.invocations;
        self.diagnostics += st.diagnostics;
        self.labels_checked += st.labels_checked;
        self.reads += st.reads;
        self.max_reads = self.max_reads.max(st.reads);
        *self.pipelines.entry(c.pipeline.clone()).or_insert(0) += 1;
        *self
            .results
            .entry(format!("{}:{}", c.pipeline, st.result))
            .or_insert(0) += 1;
        let b = match st.max_passes {
            0 => "0",
            1 => "1",
            2 => "2",
            3 => "3",
            4..=7 => "4-7",
            8..=49 => "8-49",
            _ => ">=50",
        };
        *self.pass_hist.entry(b.to_string()).or_insert(0) += 1;
    }
}

fn trace_of(c: &Case, st: &RunStats) -> u64 {
    let mut h = rng::fnv64(c.pipeline.as_bytes());
    h = rng::fnv64_extend(h, c.shape.as_bytes());
    for f in &c.faults {
        h = rng::fnv64_extend(h, f.kind.name().as_bytes());
        h = rng::fnv64_extend(h, &f.nth.to_le_bytes());
    }
    for (k, v) in &st.faults_fired {
        h = rng::fnv64_extend(h, k.as_bytes());
        h = rng::fnv64_extend(h, &v.to_le_bytes());
    }
    h = rng::fnv64_extend(h, &st.max_passes.to_le_bytes());
    h = rng::fnv64_extend(h, st.result.as_bytes());
    h
}

fn worker(cli: &Cli) -> i32 {
    let from = cli.opt_u64("from").unwrap_or(0);
    let to = cli.opt_u64("to").unwrap_or(0);
    let mut agg = Agg::default();
    for k in from..to {
        let c = gen_case(cli.seed, k);
        let (found, st) = run_case(&c);
        agg.add(&c, &st);
        let tr = trace_of(&c, &st);
        let mut dg = tr;
        dg = rng::fnv64_extend(dg, &st.diagnostics.to_le_bytes());
        if let Some(f) = &found {
            dg = rng::fnv64_extend(dg, f.sig.as_bytes());
        }
        let nontrivial = found.is_none()
            && (st.files_involved >= 2 || !st.faults_fired.is_empty())
            && (st.max_passes >= 2 || st.diagnostics >= 1);
        worker_emit_run(&RunReport {
            k,
            digest: dg,
            trace: tr,
            nontrivial,
            found: found.as_ref().map(found_json),
        });
        if agg.runs % 500 == 0 {
            worker_emit_stats(&stats_json(&agg));
            agg = Agg::default();
        }
    }
    worker_emit_stats(&stats_json(&agg));
    worker_emit_done();
    EXIT_OK
}

fn one(cli: &Cli) -> i32 {
    let path = match cli.opts.get("case") {
        Some(p) => PathBuf::from(p),
        None => return EXIT_HARNESS,
    };
    let c = match read_json(&path).ok().and_then(|v| Case::from_json(&v)) {
        Some(c) => c,
        None => return EXIT_HARNESS,
    };
    let (found, st) = run_case(&c);
    let tr = trace_of(&c, &st);
    worker_emit_run(&RunReport {
        k: 0,
        digest: tr,
        trace: tr,
        nontrivial: false,
        found: found.as_ref().map(found_json),
    });
    worker_emit_done();
    EXIT_OK
}

fn replay(cli: &Cli, path: &Path) -> i32 {
    let c = match read_json(path).ok().and_then(|v| Case::from_json(&v)) {
        Some(c) => c,
        None => {
            eprintln!("harness error: malformed replay file");
            return EXIT_HARNESS;
        }
    };
    let f = run_isolated_case(cli, &c);
    let log_hash = rng::fnv64(format!("{:?}", f.as_ref().map(|f| &f.sig)).as_bytes());
    let r = match f {
        Some(f) => ReplayResult {
            violated: true,
            sig: f.sig,
            class: f.class,
            message: f.message,
            log_hash,
        },
        None => ReplayResult {
            violated: false,
            sig: "-".into(),
            class: "-".into(),
            message: "case executed without violation".into(),
            log_hash,
        },
    };
    print_replay_result(PROP, &r)
}

fn add_u64(m: &mut BTreeMap<String, u64>, v: Option<&Value>) {
    if let Some(Value::Object(o)) = v {
        for (k, x) in o {
            *m.entry(k.clone()).or_insert(0) += x.as_u64().unwrap_or(0);
        }
    }
}

pub fn main(cli: &Cli) -> i32 {
    // the LSP pipeline needs the process-global token tables (see lspsim)
    match cli.mode.as_deref() {
        Some("worker") => return worker(cli),
        Some("one") => return one(cli),
        Some("gen") => {
            // print the case with index --from (a replay file)
            let k: u64 = cli
                .opts
                .get("from")
                .and_then(|s| s.parse().ok())
                .unwrap_or(0);
            println!(
                "{}",
                serde_json::to_string_pretty(&gen_case(cli.seed, k).to_json()).unwrap()
            );
            return EXIT_OK;
        }
        _ => {}
    }
    if let Some(p) = &cli.replay {
        return replay(cli, p);
    }
    let n = cli.runs.unwrap_or(match cli.tier {
        Tier::Quick => 40_000,
        Tier::Thorough => 2_000_000,
    });
    let seed = cli.seed;
    let determinism = cli.mode.as_deref() == Some("determinism");
    let mut ev = Evidence::new(PROP, cli);
    let sup = supervise(cli, n, &[], 240);
    let mut batch = 0xcbf2_9ce4_8422_2325u64;
    for r in &sup.runs {
        batch = rng::fnv64_extend(batch, &r.k.to_le_bytes());
        batch = rng::fnv64_extend(batch, &r.digest.to_le_bytes());
    }
    for (k, how) in &sup.deaths {
        batch = rng::fnv64_extend(batch, &k.to_le_bytes());
        batch = rng::fnv64_extend(batch, how.as_bytes());
    }
    if determinism {
        println!(
            "DETERMINISM engine=envsim runs={} deaths={} batch_hash={:016x}",
            sup.runs.len(),
            sup.deaths.len(),
            batch
        );
        return if sup.harness_errors.is_empty() {
            EXIT_OK
        } else {
            EXIT_HARNESS
        };
    }
    let mut tot: BTreeMap<String, u64> = BTreeMap::new();
    let mut faults = BTreeMap::new();
    let mut pipelines = BTreeMap::new();
    let mut results = BTreeMap::new();
    let mut pass_hist = BTreeMap::new();
    let mut max_passes = 0u64;
    let mut max_reads = 0u64;
    let mut max_work = 0u64;
    let mut max_parse_ratio = 0u64;
    let mut max_lookups = 0u64;
    for s in &sup.stats {
        for key in [
            "runs",
            "invocations",
            "diagnostics",
            "labels_checked",
            "runs_with_fault_fired",
            "reads",
        ] {
            *tot.entry(key.to_string()).or_insert(0) +=
                s.get(key).and_then(|x| x.as_u64()).unwrap_or(0);
        }
        max_passes = max_passes.max(s.get("max_passes").and_then(|x| x.as_u64()).unwrap_or(0));
        max_work = max_work.max(s.get("max_work").and_then(|x| x.as_u64()).unwrap_or(0));
        max_parse_ratio = max_parse_ratio.max(s.get("max_parse_ratio").and_then(|x| x.as_u64()).unwrap_or(0));
        max_lookups = max_lookups.max(s.get("max_lookups").and_then(|x| x.as_u64()).unwrap_or(0));
        max_reads = max_reads.max(s.get("max_reads").and_then(|x| x.as_u64()).unwrap_or(0));
        add_u64(&mut faults, s.get("faults_fired"));
        add_u64(&mut pipelines, s.get("pipelines"));
        add_u64(&mut results, s.get("results"));
        add_u64(&mut pass_hist, s.get("pass_histogram"));
    }
    let traces: BTreeSet<u64> = sup.runs.iter().map(|r| r.trace).collect();
    let nontrivial: BTreeSet<u64> = sup
        .runs
        .iter()
        .filter(|r| r.nontrivial)
        .map(|r| r.trace)
        .collect();
    let mut sig_counts: BTreeMap<String, u64> = BTreeMap::new();
    let mut first: BTreeMap<String, (u64, Found)> = BTreeMap::new();
    for r in &sup.runs {
        if let Some(f) = r.found.as_ref().and_then(found_from_json) {
            *sig_counts.entry(f.sig.clone()).or_insert(0) += 1;
            first.entry(f.sig.clone()).or_insert((r.k, f));
        }
    }
    for (k, how) in &sup.deaths {
        let c = gen_case(seed, *k);
        let f = Found {
            class: "process_death".into(),
            sig: format!("process_death:{}", how),
            message: format!(
                "the process died or deadlocked ({}) in pipeline {}",
                how, c.pipeline
            ),
        };
        *sig_counts.entry(f.sig.clone()).or_insert(0) += 1;
        first.entry(f.sig.clone()).or_insert((*k, f));
    }
    let known = KnownFindings::load();
    let todo: Vec<(String, (u64, Found))> = first.into_iter().collect();
    let out = Mutex::new(vec![]);
    let idx = std::sync::atomic::AtomicUsize::new(0);
    std::thread::scope(|s| {
        for _ in 0..cli.workers.min(todo.len()).max(1) {
            s.spawn(|| loop {
                let i = idx.fetch_add(1, std::sync::atomic::Ordering::Relaxed);
                if i >= todo.len() {
                    break;
                }
                let (sig, (k, f)) = &todo[i];
                let c = gen_case(seed, *k);
                let (mc, mf) = if known.lookup(PROP, sig).is_some() {
                    (c.clone(), f.clone())
                } else {
                    minimise(cli, &c, f)
                };
                let mut replay = mc.to_json();
                if let Value::Object(m) = &mut replay {
                    m.insert("seed".into(), json!(format!("{:#x}", seed)));
                    m.insert("run".into(), json!(k));
                }
                out.lock().unwrap().push(Violation {
                    property: PROP,
                    class: mf.class.clone(),
                    sig: mf.sig.clone(),
                    message: format!(
                        "C06 run {} (pipeline {}, {} files, {} faults): {}",
                        k,
                        c.pipeline,
                        c.project.files.len(),
                        c.faults.len(),
                        mf.message
                    ),
                    run_index: *k,
                    replay,
                });
            });
        }
    });
    let violations = out.into_inner().unwrap();
    let mut samples = vec![];
    for r in sup
        .runs
        .iter()
        .filter(|r| r.nontrivial)
        .take(400)
        .step_by(130)
    {
        let c = gen_case(seed, r.k);
        samples.push(json!({"run": r.k, "case": c.to_json()}));
    }
    if samples.is_empty() {
        samples.push(json!({"run": 0, "case": gen_case(seed, 0).to_json()}));
    }
    ev.evaluations = sup.runs.len() as u64 + sup.deaths.len() as u64;
    ev.distinct_nontrivial = nontrivial.len() as u64;
    ev.rule = format!(
        "SCOPED CLAIM: environment faults, import graphs and pass-loop termination only; file contents are workload drawn from a fixed corpus ({} fragments from the repository's tests/docs + {} boundary fragments), not a searched space. {} seeded cases: import graph over 1-4 files (self imports, cycles, diamonds, duplicate and missing targets, path spellings with ./, ../, backslashes; 5 import forms) x fault plan (0-3 read faults: ENOENT, EACCES, EISDIR, EIO, EINTR, short file, empty file, invalid UTF-8, changed contents, cut multi-byte character, each at the n-th access of a path; occasional write fault ENOSPC/EACCES) x pipeline (build_command with listing+symbols, parse+codegen in analysis mode+listing+format, LSP startup+didOpen, format_command). distinct = distinct hash of (pipeline, graph shape, planned and fired faults, pass count, result kind); non-trivial = violation-free AND (>= 2 files read OR >= 1 fault fired) AND (>= 2 passes OR >= 1 diagnostic)",
        fragments().len(), boundary().len(), n
    );
    ev.samples = samples;
    for (k, v) in &tot {
        ev.set(k, json!(v));
    }
    ev.set("max_passes_of_any_run", json!(max_passes));
    ev.set("max_tokens_emitted_in_one_pass", json!(max_work));
    ev.set("max_parse_attempts_per_byte", json!(max_parse_ratio as f64 / 1000.0));
    ev.set("max_lookup_steps_in_one_pass", json!(max_lookups));
    ev.set(
        "token_emission_budget_per_pass",
        json!(passwatch::WORK_BUDGET),
    );
    ev.set("max_file_reads_of_any_run", json!(max_reads));
    ev.set("file_read_budget", json!(READ_BUDGET));
    ev.set("pass_count_histogram", json!(pass_hist));
    ev.set("fault_kinds_injected", json!(faults));
    ev.set("pipelines", json!(pipelines));
    ev.set("results", json!(results));
    ev.set("worker_process_deaths", json!(sup.deaths.len()));
    ev.set("distinct_cases_by_trace", json!(traces.len()));
    ev.set("interleaving_measure", json!("distinct (pipeline, import-graph shape, planned+fired fault kinds, pass count, result kind) tuples"));
    ev.set("violation_signatures_seen_in_batch", json!(sig_counts));
    ev.set("batch_hash", json!(format!("{:016x}", batch)));
    ev.set("simulated_time_ms", json!(0));
    ev.set("logical_clock", json!({"unit": "assembler passes", "periodic_verdict_after": passwatch::PERIODIC_MIN_PASSES, "divergent_verdict_after": passwatch::DIVERGENT_PASSES}));
    ev.set("components", json!({
        "real": ["mos::commands::build_command / format_command", "mos-core parser, codegen (build and greedy-analysis mode), binary writer, listing, vice symbols, formatter", "LspServer::new + didOpen (perform_codegen, publish_diagnostics)", "FileSystemParsingSource and LspParsingSource on the simulated disk", "diagnostic emitter"],
        "simulated": ["disk with per-path n-th-access fault plan (fs-err shim)", "working directory", "OS entropy", "process boundary (supervised worker processes; stack 8 MiB like the real main thread)"],
        "not_run": ["main() and argument parsing", "mos test"]
    }));
    ev.assumptions = vec![
        "scoped claim: the file-content input space (arbitrary bytes, all literal values and directive arguments) is NOT searched; a content-triggered failure is caught only if one of the corpus fragments triggers it".into(),
        "non-termination is decided on the pass loop's logical clock (periodic state digest over >= 2000 passes, or >= 10000 passes); wall clock only feeds a watchdog that reports a harness error".into(),
        "a worker process death (stack overflow, abort) is attributed to the run that was in progress".into(),
    ];
    let mut code = conclude(cli, &mut ev, violations);
    if !sup.harness_errors.is_empty() {
        for e in &sup.harness_errors {
            eprintln!("harness error: {}", e);
        }
        if code == EXIT_OK {
            code = EXIT_HARNESS;
        }
    }
    code
}
