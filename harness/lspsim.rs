//! lspsim (C14): seeded message histories against the real `LspServer`
//! (driven through `handle_message` over an in-memory connection, on a
//! simulated disk), with a *fresh real server fed only the final buffers* as
//! the reference model after every event.

use super::common::*;
use super::lsp_corpus as lc;
use crate::lsp::{LspContext, LspServer};
use lsp_server::{Message, Notification, Request, RequestId};
use mos_simrt::disk::{Fault, FaultKind, Op, SimDisk};
use mos_simrt::rng::{self, Rng};
use mos_simrt::{disk, entropy, env, panics};
use serde_json::{json, Value};
use std::collections::{BTreeMap, BTreeSet};
use std::path::{Path, PathBuf};
use std::sync::Mutex;

const PROP: &str = "C14";
const WS: &str = "/ws";

pub const REQ_KINDS: &[&str] = &[
    "textDocument/semanticTokens/full",
    "textDocument/formatting",
    "textDocument/onTypeFormatting",
    "textDocument/definition",
    "textDocument/references",
    "textDocument/documentHighlight",
    "textDocument/prepareRename",
    "textDocument/rename",
    "textDocument/completion",
    "textDocument/codeLens",
    "textDocument/hover",
    "textDocument/documentSymbol",
    "workspace/symbol",
];

#[derive(Clone, Debug, PartialEq)]
pub enum Ev {
    Open {
        file: String,
        text: String,
    },
    Change {
        file: String,
        text: String,
    },
    /// one didChange notification carrying 0, 2 or 3 content changes (full texts); the last one counts
    ChangeN {
        file: String,
        texts: Vec<String>,
    },
    Close {
        file: String,
    },
    /// didSave (the server has no handler for it: it changes nothing)
    Save {
        file: String,
    },
    /// Delivery timing: the client is ahead of the server. All these notifications (open/change/close/save) are
    /// already waiting on the connection when the server gets round to the first of them.
    Burst {
        events: Vec<Ev>,
    },
    /// disk state change, only generated immediately before a buffer event
    Disk {
        file: String,
        state: DiskState,
    },
    Req {
        kind: String,
        file: String,
        line: u32,
        col: u32,
        extra: String,
        pos_kind: String,
    },
}

#[derive(Clone, Debug, PartialEq)]
pub enum DiskState {
    Text(String),
    Missing,
    Unreadable,
    InvalidUtf8,
}

impl DiskState {
    fn to_json(&self) -> Value {
        match self {
            DiskState::Text(t) => json!({ "text": t }),
            DiskState::Missing => json!("missing"),
            DiskState::Unreadable => json!("unreadable"),
            DiskState::InvalidUtf8 => json!("invalid_utf8"),
        }
    }
    fn from_json(v: &Value) -> Option<DiskState> {
        match v {
            Value::String(s) if s == "missing" => Some(DiskState::Missing),
            Value::String(s) if s == "unreadable" => Some(DiskState::Unreadable),
            Value::String(s) if s == "invalid_utf8" => Some(DiskState::InvalidUtf8),
            Value::Object(o) => Some(DiskState::Text(o.get("text")?.as_str()?.to_string())),
            _ => None,
        }
    }
    fn name(&self) -> &'static str {
        match self {
            DiskState::Text(_) => "disk_changed",
            DiskState::Missing => "disk_missing",
            DiskState::Unreadable => "disk_unreadable",
            DiskState::InvalidUtf8 => "disk_invalid_utf8",
        }
    }
}

impl Ev {
    fn to_json(&self) -> Value {
        match self {
            Ev::Open { file, text } => json!({"op": "open", "file": file, "text": text}),
            Ev::Change { file, text } => json!({"op": "change", "file": file, "text": text}),
            Ev::ChangeN { file, texts } => json!({"op": "change_n", "file": file, "texts": texts}),
            Ev::Close { file } => json!({"op": "close", "file": file}),
            Ev::Save { file } => json!({"op": "save", "file": file}),
            Ev::Burst { events } => {
                json!({"op": "burst_already_waiting", "events": events.iter().map(|e| e.to_json()).collect::<Vec<_>>()})
            }
            Ev::Disk { file, state } => {
                json!({"op": "disk", "file": file, "state": state.to_json()})
            }
            Ev::Req {
                kind,
                file,
                line,
                col,
                extra,
                pos_kind,
            } => {
                json!({"op": "req", "kind": kind, "file": file, "line": line, "col": col, "extra": extra, "pos_kind": pos_kind})
            }
        }
    }
    fn from_json(v: &Value) -> Option<Ev> {
        let s = |k: &str| v.get(k).and_then(|x| x.as_str()).map(|x| x.to_string());
        match v.get("op")?.as_str()? {
            "open" => Some(Ev::Open {
                file: s("file")?,
                text: s("text")?,
            }),
            "change" => Some(Ev::Change {
                file: s("file")?,
                text: s("text")?,
            }),
            "change_n" => Some(Ev::ChangeN {
                file: s("file")?,
                texts: v
                    .get("texts")?
                    .as_array()?
                    .iter()
                    .map(|t| t.as_str().map(|x| x.to_string()))
                    .collect::<Option<Vec<_>>>()?,
            }),
            "close" => Some(Ev::Close { file: s("file")? }),
            "save" => Some(Ev::Save { file: s("file")? }),
            "burst_already_waiting" => Some(Ev::Burst {
                events: v
                    .get("events")?
                    .as_array()?
                    .iter()
                    .map(Ev::from_json)
                    .collect::<Option<Vec<_>>>()?,
            }),
            "disk" => Some(Ev::Disk {
                file: s("file")?,
                state: DiskState::from_json(v.get("state")?)?,
            }),
            "req" => Some(Ev::Req {
                kind: s("kind")?,
                file: s("file")?,
                line: v.get("line")?.as_u64()? as u32,
                col: v.get("col")?.as_u64()? as u32,
                extra: s("extra").unwrap_or_default(),
                pos_kind: s("pos_kind").unwrap_or_default(),
            }),
            _ => None,
        }
    }
    fn kind_name(&self) -> String {
        match self {
            Ev::Open { .. } => "open".into(),
            Ev::Change { .. } => "change".into(),
            Ev::ChangeN { texts, .. } => format!("change_with_{}_content_changes", texts.len()),
            Ev::Close { .. } => "close".into(),
            Ev::Save { .. } => "save".into(),
            Ev::Burst { events } => format!(
                "burst[{}]",
                events.iter().map(|e| e.kind_name()).collect::<Vec<_>>().join(",")
            ),
            Ev::Disk { state, .. } => state.name().into(),
            Ev::Req { kind, .. } => kind.clone(),
        }
    }
}

#[derive(Clone, Debug, PartialEq)]
pub struct History {
    pub entropy_seed: u64,
    /// file name (relative to /ws) -> initial disk state
    pub disk: BTreeMap<String, DiskState>,
    pub toml: Option<String>,
    pub events: Vec<Ev>,
}

impl History {
    fn to_json(&self) -> Value {
        let disk: serde_json::Map<String, Value> = self
            .disk
            .iter()
            .map(|(k, v)| (k.clone(), v.to_json()))
            .collect();
        json!({
            "engine": "lspsim",
            "entropy_seed": format!("{:#x}", self.entropy_seed),
            "disk": disk,
            "toml": self.toml,
            "events": self.events.iter().map(|e| e.to_json()).collect::<Vec<_>>(),
        })
    }
    fn from_json(v: &Value) -> Option<History> {
        let mut disk = BTreeMap::new();
        for (k, s) in v.get("disk")?.as_object()? {
            disk.insert(k.clone(), DiskState::from_json(s)?);
        }
        Some(History {
            entropy_seed: v
                .get("entropy_seed")
                .and_then(|s| s.as_str())
                .and_then(parse_u64)?,
            disk,
            toml: v
                .get("toml")
                .and_then(|t| t.as_str())
                .map(|s| s.to_string()),
            events: v
                .get("events")?
                .as_array()?
                .iter()
                .map(Ev::from_json)
                .collect::<Option<Vec<_>>>()?,
        })
    }
}

fn abs(file: &str) -> PathBuf {
    if file.starts_with('/') {
        PathBuf::from(file)
    } else {
        Path::new(WS).join(file)
    }
}

/// a document that has no file yet, as editors present it
pub const UNTITLED: &str = "untitled:Untitled-1";

fn uri(file: &str) -> String {
    if file.starts_with("untitled:") {
        return file.to_string();
    }
    lsp_types::Url::from_file_path(abs(file))
        .unwrap()
        .to_string()
}

fn apply_disk_state(d: &mut SimDisk, file: &str, st: &DiskState) {
    let p = mos_simrt::disk::normalize(&abs(file));
    d.faults.retain(|f| f.path != p);
    match st {
        DiskState::Text(t) => d.add_file(&p, t.as_bytes().to_vec()),
        DiskState::Missing => d.remove_file(&p),
        DiskState::Unreadable => {
            d.add_file(&p, b"unreadable".to_vec());
            d.faults.push(Fault {
                path: p,
                nth: 0,
                op: Op::Read,
                kind: FaultKind::PermissionDenied,
            });
        }
        DiskState::InvalidUtf8 => {
            d.add_file(&p, vec![b'l', b'd', b'a', b' ', 0xff, 0xfe, b'\n', 0xc3])
        }
    }
}

// ---------------------------------------------------------------------------------------
// A server node (long-lived or fresh)
// ---------------------------------------------------------------------------------------

pub struct Crash {
    pub what: String,
    pub location: String,
}

struct Node {
    server: LspServer,
    client: lsp_server::Connection,
    next_id: i32,
    /// uri -> last published diagnostics (canonical)
    published: BTreeMap<String, Vec<Value>>,
    /// every publish in order: (uri, count)
    publish_log: Vec<(String, usize)>,
}

fn crash_from_panic(prefix: &str) -> Crash {
    let p = panics::peek();
    let last = p.last();
    Crash {
        what: format!(
            "{}: {}",
            prefix,
            last.map(|p| p.message.clone()).unwrap_or_default()
        ),
        location: last
            .map(|p| p.location.clone())
            .unwrap_or_else(|| "<unknown>".into()),
    }
}

impl Node {
    fn new() -> Result<Node, Crash> {
        disk::with(|d| d.reset_read_clock());
        let r = std::panic::catch_unwind(std::panic::AssertUnwindSafe(|| {
            let mut ctx = LspContext::new();
            let client = ctx.listen_memory_verif();
            let server = LspServer::new(ctx);
            (server, client)
        }));
        match r {
            Ok((server, client)) => Ok(Node {
                server,
                client,
                next_id: 1,
                published: BTreeMap::new(),
                publish_log: vec![],
            }),
            Err(_) => Err(crash_from_panic("panic while starting a server")),
        }
    }

    /// Deliver one message; returns everything the server sent in reaction.
    fn deliver(&mut self, msg: Message) -> Result<Vec<Message>, Crash> {
        disk::with(|d| d.reset_read_clock());
        let server = &mut self.server;
        let r =
            std::panic::catch_unwind(std::panic::AssertUnwindSafe(|| server.handle_message(msg)));
        match r {
            Err(_) => return Err(crash_from_panic("handler panicked")),
            Ok(Err(e)) => {
                return Err(Crash {
                    what: format!(
                        "handle_message returned Err (the main loop would exit): {}",
                        e
                    ),
                    location: "handle_message".into(),
                })
            }
            Ok(Ok(())) => {}
        }
        let mut out = vec![];
        while let Ok(m) = self.client.receiver.try_recv() {
            if let Message::Notification(n) = &m {
                if n.method == "textDocument/publishDiagnostics" {
                    let u = n
                        .params
                        .get("uri")
                        .and_then(|u| u.as_str())
                        .unwrap_or("")
                        .to_string();
                    let mut d: Vec<Value> = n
                        .params
                        .get("diagnostics")
                        .and_then(|d| d.as_array())
                        .cloned()
                        .unwrap_or_default();
                    d.sort_by_key(|v| v.to_string());
                    self.publish_log.push((u.clone(), d.len()));
                    self.published.insert(u, d);
                }
            }
            out.push(m);
        }
        Ok(out)
    }

    fn notify(&mut self, method: &str, params: Value) -> Result<Vec<Message>, Crash> {
        self.deliver(Message::Notification(Notification {
            method: method.into(),
            params,
        }))
    }

    /// The client is ahead: every message but the first is already waiting on the connection when the first one is
    /// handled; then the main loop's `recv` / `handle_message` cycle runs until the connection is empty.
    fn notify_burst(&mut self, msgs: Vec<(String, Value)>) -> Result<Vec<Message>, Crash> {
        let mut it = msgs.into_iter();
        let first = match it.next() {
            Some(f) => f,
            None => return Ok(vec![]),
        };
        for (method, params) in it {
            let _ = self
                .client
                .sender
                .send(Message::Notification(Notification { method, params }));
        }
        let mut out = self.notify(&first.0, first.1)?;
        loop {
            let conn = self.server.lock_context().connection_verif();
            let next = conn.and_then(|c| c.receiver.try_recv().ok());
            match next {
                Some(m) => out.extend(self.deliver(m)?),
                None => break,
            }
        }
        Ok(out)
    }

    /// Send a request; returns the response's `result` (or an error object).
    fn request(&mut self, method: &str, params: Value) -> Result<Result<Value, String>, Crash> {
        let id = self.next_id;
        self.next_id += 1;
        let out = self.deliver(Message::Request(Request {
            id: RequestId::from(id),
            method: method.into(),
            params,
        }))?;
        let responses: Vec<&lsp_server::Response> = out
            .iter()
            .filter_map(|m| match m {
                Message::Response(r) => Some(r),
                _ => None,
            })
            .collect();
        if responses.len() != 1 {
            return Ok(Err(format!(
                "{} responses for one request",
                responses.len()
            )));
        }
        let r = responses[0];
        if r.id != RequestId::from(id) {
            return Ok(Err(format!("response id {:?} for request id {}", r.id, id)));
        }
        if let Some(e) = &r.error {
            return Ok(Ok(json!({"error": {"code": e.code, "message": e.message}})));
        }
        Ok(Ok(r.result.clone().unwrap_or(Value::Null)))
    }
}

fn did_open(file: &str, text: &str, version: i64) -> Value {
    json!({"textDocument": {"uri": uri(file), "languageId": "asm", "version": version, "text": text}})
}
fn did_change(file: &str, text: &str, version: i64) -> Value {
    json!({"textDocument": {"uri": uri(file), "version": version}, "contentChanges": [{"text": text}]})
}

fn did_change_n(file: &str, texts: &[String], version: i64) -> Value {
    let changes: Vec<Value> = texts.iter().map(|t| json!({ "text": t })).collect();
    json!({"textDocument": {"uri": uri(file), "version": version}, "contentChanges": changes})
}

/// How the simulated editor numbers document versions (all legal under the LSP specification,
/// which only orders versions within one open..close session of a document).
struct Versions {
    policy: u64,
    global: i64,
    per_file: BTreeMap<String, i64>,
}

impl Versions {
    fn new(entropy_seed: u64) -> Versions {
        Versions {
            policy: rng::derive(entropy_seed, "lsp.versions", 0) % 3,
            global: 0,
            per_file: BTreeMap::new(),
        }
    }
    fn open(&mut self, file: &str) -> i64 {
        match self.policy {
            // constant numbers, as the repository's own tests send them
            0 => 0,
            // restart at 1 for every session of a document (VS Code)
            1 => {
                self.per_file.insert(file.to_string(), 1);
                1
            }
            // one counter for the whole life of the client
            _ => {
                self.global += 1;
                self.global
            }
        }
    }
    fn change(&mut self, file: &str) -> i64 {
        match self.policy {
            0 => 1,
            1 => {
                let v = self.per_file.entry(file.to_string()).or_insert(1);
                *v += 1;
                *v
            }
            _ => {
                self.global += 1;
                self.global
            }
        }
    }
}
fn did_close(file: &str) -> Value {
    json!({"textDocument": {"uri": uri(file)}})
}

fn req_params(kind: &str, file: &str, line: u32, col: u32, extra: &str) -> Value {
    // a client that gets the parameters wrong (a plug-in, another protocol version): the request deserves an error
    // response, the server deserves to live
    match extra {
        "malformed:empty" => return json!({}),
        "malformed:null" => return Value::Null,
        "malformed:types" => return json!({"textDocument": 5, "position": "here", "query": 1}),
        "malformed:negative" => {
            return json!({"textDocument": {"uri": uri(file)}, "position": {"line": -1, "character": -1}, "query": ""})
        }
        "malformed:uri" => {
            return json!({"textDocument": {"uri": "not a uri"}, "position": {"line": line, "character": col}, "query": ""})
        }
        _ => {}
    }
    let td = json!({"uri": uri(file)});
    let pos = json!({"line": line, "character": col});
    match kind {
        "textDocument/semanticTokens/full"
        | "textDocument/codeLens"
        | "textDocument/documentSymbol" => {
            json!({"textDocument": td})
        }
        "textDocument/formatting" => {
            json!({"textDocument": td, "options": {"tabSize": 4, "insertSpaces": true}})
        }
        "textDocument/onTypeFormatting" => {
            json!({"textDocument": td, "position": pos, "ch": "}", "options": {"tabSize": 4, "insertSpaces": true}})
        }
        "textDocument/references" => {
            json!({"textDocument": td, "position": pos, "context": {"includeDeclaration": extra != "nodecl"}})
        }
        "textDocument/rename" => {
            json!({"textDocument": td, "position": pos, "newName": if extra.is_empty() { "renamed" } else { extra }})
        }
        "workspace/symbol" => json!({"query": extra}),
        _ => json!({"textDocument": td, "position": pos}),
    }
}

/// Sort every array whose order the protocol leaves undefined (everything but
/// the semantic token stream, whose order is part of its encoding).
fn canonical(v: &Value) -> Value {
    match v {
        Value::Array(a) => {
            // order counts: an answer whose items come out in hash order differs from process to process
            Value::Array(a.iter().map(canonical).collect())
        }
        Value::Object(o) => {
            let mut m = serde_json::Map::new();
            for (k, x) in o {
                if k == "data" {
                    m.insert(k.clone(), x.clone());
                } else {
                    m.insert(k.clone(), canonical(x));
                }
            }
            Value::Object(m)
        }
        other => other.clone(),
    }
}

// ---------------------------------------------------------------------------------------
// Well-formedness of positional results
// ---------------------------------------------------------------------------------------

fn as_range(v: &Value) -> Option<(u64, u64, u64, u64)> {
    let o = v.as_object()?;
    if o.len() != 2 {
        return None;
    }
    let s = o.get("start")?;
    let e = o.get("end")?;
    Some((
        s.get("line")?.as_u64()?,
        s.get("character")?.as_u64()?,
        e.get("line")?.as_u64()?,
        e.get("character")?.as_u64()?,
    ))
}

fn collect_ranges(
    v: &Value,
    ctx: Option<&str>,
    req_uri: Option<&str>,
    out: &mut Vec<(Option<String>, (u64, u64, u64, u64), String)>,
) {
    match v {
        Value::Array(a) => a.iter().for_each(|x| collect_ranges(x, ctx, req_uri, out)),
        Value::Object(o) => {
            let mut ctx = ctx.map(|s| s.to_string());
            if let Some(u) = o.get("uri").and_then(|u| u.as_str()) {
                ctx = Some(u.to_string());
            }
            let target = o
                .get("targetUri")
                .and_then(|u| u.as_str())
                .map(|s| s.to_string());
            for (k, x) in o {
                if k == "changes" {
                    if let Some(m) = x.as_object() {
                        for (u, edits) in m {
                            collect_ranges(edits, Some(u), req_uri, out);
                        }
                    }
                    continue;
                }
                if let Some(r) = as_range(x) {
                    let c = match k.as_str() {
                        "targetRange" | "targetSelectionRange" => target.clone(),
                        "originSelectionRange" => req_uri.map(|s| s.to_string()),
                        _ => ctx.clone(),
                    };
                    out.push((c, r, k.clone()));
                } else {
                    collect_ranges(x, ctx.as_deref(), req_uri, out);
                }
            }
        }
        _ => {}
    }
}

/// Length of a line in the unit the protocol defines for `character`: UTF-16 code units. (Until wave 13 this was the
/// most permissive unit, bytes, "so that a unit mismatch cannot raise a false alarm" - which also hid every range that
/// ends one or two columns past a line containing a multi-byte character. A position beyond the UTF-16 length of its
/// line is outside the document by the protocol's own definition, whatever unit the server counted in; the server
/// counts characters, which are never more than UTF-16 units.)
fn line_units(l: &str) -> u64 {
    l.encode_utf16().count() as u64
}

fn range_inside(text: &str, r: (u64, u64, u64, u64)) -> Result<(), String> {
    let lines: Vec<&str> = text.split('\n').collect();
    let (sl, sc, el, ec) = r;
    if (sl, sc) > (el, ec) {
        return Err("start > end".into());
    }
    for (l, c, what) in [(sl, sc, "start"), (el, ec, "end")] {
        if l as usize >= lines.len() {
            // a position at (line_count, 0) is the usual encoding of "end of document"
            if l as usize == lines.len() && c == 0 {
                continue;
            }
            return Err(format!("{} line {} >= line count {}", what, l, lines.len()));
        }
        let len = line_units(lines[l as usize]);
        if c > len {
            return Err(format!("{} character {} > line length {}", what, c, len));
        }
    }
    Ok(())
}

fn check_tokens(text: &str, data: &Value) -> Result<usize, String> {
    // lsp-types serialises SemanticToken sequences as a flat u32 array
    let flat: Vec<u64> = match data.as_array() {
        Some(a) => a.iter().filter_map(|x| x.as_u64()).collect(),
        None => return Ok(0),
    };
    if flat.len() % 5 != 0 {
        return Err("token data length not a multiple of 5".into());
    }
    let lines: Vec<&str> = text.split('\n').collect();
    let (mut line, mut start) = (0u64, 0u64);
    let mut prev_end: Option<(u64, u64)> = None;
    for (i, t) in flat.chunks(5).enumerate() {
        let (dl, ds, len) = (t[0], t[1], t[2]);
        if dl > 0 {
            line += dl;
            start = ds;
        } else {
            start += ds;
        }
        if len == 0 {
            return Err(format!(
                "token {} has zero length (line {}, col {})",
                i, line, start
            ));
        }
        if let Some((pl, pe)) = prev_end {
            if pl == line && start < pe {
                return Err(format!(
                    "token {} overlaps its predecessor (line {}, col {} < {})",
                    i, line, start, pe
                ));
            }
        }
        if i > 0 && dl == 0 && ds == 0 {
            return Err(format!("token {} not strictly after its predecessor", i));
        }
        if line as usize >= lines.len() {
            return Err(format!(
                "token {} on line {} >= line count {}",
                i,
                line,
                lines.len()
            ));
        }
        let ll = line_units(lines[line as usize]);
        if start + len > ll {
            return Err(format!(
                "token {} ends at {} > line length {}",
                i,
                start + len,
                ll
            ));
        }
        prev_end = Some((line, start + len));
    }
    Ok(flat.len() / 5)
}

// ---------------------------------------------------------------------------------------
// One run
// ---------------------------------------------------------------------------------------

#[derive(Clone, Debug)]
pub struct Found {
    pub class: String,
    pub sig: String,
    pub message: String,
    pub at_event: usize,
}

#[derive(Clone, Debug, Default)]
pub struct RunStats {
    pub events: u64,
    pub buffer_events: u64,
    pub requests: u64,
    pub fresh_servers: u64,
    pub fresh_processes: u64,
    pub comparisons: u64,
    pub digest_changes: u64,
    pub had_errors_before_request: bool,
    pub kinds: BTreeMap<String, u64>,
    pub pos_kinds: BTreeMap<String, u64>,
    pub faults: BTreeMap<String, u64>,
    pub nonnull_answers: u64,
    pub tokens_checked: u64,
    pub ranges_checked: u64,
    pub trace_hash: u64,
    pub max_passes: u64,
    pub max_lookups: u64,
    pub codegen_invocations: u64,
    pub log: Vec<String>,
}

fn short_loc(loc: &str) -> String {
    // keep "file.rs:line" relative to the repo
    loc.trim_start_matches("/repo/").to_string()
}

struct World {
    open_order: Vec<String>,
    buffers: BTreeMap<String, String>,
}

impl World {
    fn text_of(&self, file: &str) -> Option<String> {
        if let Some(t) = self.buffers.get(file) {
            return Some(t.clone());
        }
        disk::with(|d| {
            d.files
                .get(&mos_simrt::disk::normalize(&abs(file)))
                .cloned()
        })
        .flatten()
        .and_then(|b| String::from_utf8(b).ok())
    }
    fn text_of_uri(&self, u: &str) -> Option<String> {
        if u.starts_with("untitled:") {
            // a document without a file: it exists as long as it is open
            return self.buffers.get(u).cloned();
        }
        let p = lsp_types::Url::parse(u).ok()?.to_file_path().ok()?;
        let rel = p
            .strip_prefix(WS)
            .ok()
            .map(|r| r.to_string_lossy().to_string());
        match rel {
            Some(r) => self.text_of(&r),
            None => self.text_of(&p.to_string_lossy()),
        }
    }
}

fn fresh_node(world: &World, stats: &mut RunStats) -> Result<Node, Crash> {
    stats.fresh_servers += 1;
    let mut f = Node::new()?;
    for file in &world.open_order {
        if let Some(t) = world.buffers.get(file) {
            f.notify("textDocument/didOpen", did_open(file, t, 1))?;
        }
    }
    Ok(f)
}

fn diag_diff(long: &Node, fresh: &Node) -> Option<(String, String)> {
    let uris: BTreeSet<&String> = long
        .published
        .keys()
        .chain(fresh.published.keys())
        .collect();
    let empty: Vec<Value> = vec![];
    for u in uris {
        let a = long.published.get(u).unwrap_or(&empty);
        let b = fresh.published.get(u).unwrap_or(&empty);
        if a != b {
            let kind = if !fresh.published.contains_key(u) {
                "stale_for_file_not_in_fresh_tree"
            } else if !long.published.contains_key(u) {
                "missing_for_file_in_fresh_tree"
            } else {
                "different_for_same_file"
            };
            return Some((
                kind.to_string(),
                format!(
                    "last published diagnostics for {} differ: long-lived server {} vs fresh server {}",
                    u,
                    Value::Array(a.clone()),
                    Value::Array(b.clone())
                ),
            ));
        }
    }
    None
}

/// Execute a history inside the current (fresh) thread. Returns the first
/// violation found, if any.
pub fn execute(h: &History, seed_checks: usize, stats: &mut RunStats) -> Option<Found> {
    entropy::set_seed(Some(h.entropy_seed));
    env::set_cwd(Some(PathBuf::from(WS)));
    let mut d = SimDisk::new();
    d.add_dir(WS);
    if let Some(t) = &h.toml {
        d.add_file(format!("{}/mos.toml", WS), t.as_bytes().to_vec());
    }
    for (f, st) in &h.disk {
        apply_disk_state(&mut d, f, st);
    }
    d.read_budget = Some(200_000);
    disk::install(d);
    super::passwatch::install();
    let r = execute_inner(h, seed_checks, stats);
    let ps = super::passwatch::uninstall();
    stats.max_passes = stats.max_passes.max(ps.max_passes as u64);
    stats.max_lookups = stats.max_lookups.max(ps.max_lookups);
    stats.codegen_invocations += ps.invocations;
    disk::uninstall();
    env::set_cwd(None);
    entropy::set_seed(None);
    r
}

fn crash_found(c: &Crash, who: &str, method: &str, at: usize) -> Found {
    if c.what.contains(mos_simrt::disk::READ_BUDGET_MARKER) {
        return Found {
            class: "nonterminating_file_loop".into(),
            sig: format!(
                "nonterminating:file_reads:{}:{}",
                who,
                method.rsplit('/').next().unwrap_or(method)
            ),
            message: format!(
                "{} server, {}: does not terminate, it keeps reading files ({})",
                who, method, c.what
            ),
            at_event: at,
        };
    }
    if c.what.contains(super::passwatch::LOOKUP_BUDGET_MARKER) {
        return Found {
            class: "nonterminating_expansion".into(),
            sig: format!(
                "nonterminating:lookups:{}:{}",
                who,
                method.rsplit('/').next().unwrap_or(method)
            ),
            message: format!(
                "{} server, {}: does not terminate in any useful sense ({})",
                who, method, c.what
            ),
            at_event: at,
        };
    }
    if c.what.contains(super::passwatch::PARSE_BUDGET_MARKER) {
        return Found {
            class: "nonterminating_parse".into(),
            sig: format!(
                "nonterminating:parse:{}:{}",
                who,
                method.rsplit('/').next().unwrap_or(method)
            ),
            message: format!(
                "{} server, {}: does not terminate in any useful sense ({})",
                who, method, c.what
            ),
            at_event: at,
        };
    }
    if c.what.contains(super::passwatch::WORK_BUDGET_MARKER) {
        return Found {
            class: "nonterminating_expansion".into(),
            sig: format!(
                "nonterminating:expansion:{}:{}",
                who,
                method.rsplit('/').next().unwrap_or(method)
            ),
            message: format!(
                "{} server, {}: does not terminate in any useful sense ({})",
                who, method, c.what
            ),
            at_event: at,
        };
    }
    let loc = short_loc(&c.location);
    Found {
        class: format!("crash_{}", who),
        sig: format!("crash:{}:{}@{}", who, method, loc),
        message: format!("{} server, {}: {} at {}", who, method, c.what, loc),
        at_event: at,
    }
}

fn nonterm_found(verdict: &str, who: &str, method: &str, at: usize) -> Found {
    Found {
        class: "nonterminating_analysis".into(),
        sig: format!("nonterminating:{}:{}", who, method.rsplit('/').next().unwrap_or(method)),
        message: format!(
            "{} server, {}: the assembler's pass loop does not terminate ({}); the request would never be answered",
            who, method, verdict
        ),
        at_event: at,
    }
}

/// World bookkeeping for one buffer notification and the message that carries it.
fn note_message(ev: &Ev, world: &mut World, versions: &mut Versions) -> Option<(String, Value)> {
    match ev {
        Ev::Open { file, text } => {
            if !world.open_order.contains(file) {
                world.open_order.push(file.clone());
            }
            world.buffers.insert(file.clone(), text.clone());
            let v = versions.open(file);
            Some(("textDocument/didOpen".into(), did_open(file, text, v)))
        }
        Ev::Change { file, text } => {
            if !world.open_order.contains(file) {
                world.open_order.push(file.clone());
            }
            world.buffers.insert(file.clone(), text.clone());
            let v = versions.change(file);
            Some(("textDocument/didChange".into(), did_change(file, text, v)))
        }
        Ev::ChangeN { file, texts } => {
            if let Some(last) = texts.last() {
                if !world.open_order.contains(file) {
                    world.open_order.push(file.clone());
                }
                world.buffers.insert(file.clone(), last.clone());
            }
            let v = versions.change(file);
            Some(("textDocument/didChange".into(), did_change_n(file, texts, v)))
        }
        Ev::Close { file } => {
            world.open_order.retain(|f| f != file);
            world.buffers.remove(file);
            Some(("textDocument/didClose".into(), did_close(file)))
        }
        Ev::Save { file } => Some((
            "textDocument/didSave".into(),
            json!({"textDocument": {"uri": uri(file)}}),
        )),
        _ => None,
    }
}

fn execute_inner(h: &History, seed_checks: usize, stats: &mut RunStats) -> Option<Found> {
    let mut world = World {
        open_order: vec![],
        buffers: BTreeMap::new(),
    };
    let mut long = match Node::new() {
        Ok(n) => n,
        Err(c) => return Some(crash_found(&c, "long_lived", "startup", 0)),
    };
    if let Some(v) = super::passwatch::take_verdict() {
        return Some(nonterm_found(&v, "long_lived", "startup", 0));
    }
    let mut last_digest = 0u64;
    let mut trace = 0xcbf2_9ce4_8422_2325u64;
    let mut seen_errors = false;
    let mut versions = Versions::new(h.entropy_seed);
    // answers of the long-lived server to the requests that follow the last buffer or disk event
    let mut tail_answers: Vec<(usize, Value)> = vec![];
    for (i, ev) in h.events.iter().enumerate() {
        if !matches!(ev, Ev::Req { .. }) {
            tail_answers.clear();
        }
        stats.events += 1;
        *stats.kinds.entry(ev.kind_name()).or_insert(0) += 1;
        trace = rng::fnv64_extend(trace, ev.kind_name().as_bytes());
        let publish_mark = long.publish_log.len();
        let mut request: Option<(String, Value, String)> = None;
        let method: String;
        let res: Result<Option<Result<Value, String>>, Crash> = match ev {
            Ev::Disk { file, state } => {
                disk::with(|d| apply_disk_state(d, file, state));
                *stats.faults.entry(state.name().to_string()).or_insert(0) += 1;
                stats
                    .log
                    .push(format!("#{} disk {} {}", i, file, state.name()));
                continue;
            }
            Ev::Open { file, text } => {
                method = "textDocument/didOpen".into();
                stats.buffer_events += 1;
                if !world.open_order.contains(file) {
                    world.open_order.push(file.clone());
                }
                world.buffers.insert(file.clone(), text.clone());
                {
                    let v = versions.open(file);
                    long.notify(&method, did_open(file, text, v)).map(|_| None)
                }
            }
            Ev::Change { file, text } => {
                method = "textDocument/didChange".into();
                stats.buffer_events += 1;
                if !world.open_order.contains(file) {
                    world.open_order.push(file.clone());
                }
                world.buffers.insert(file.clone(), text.clone());
                {
                    let v = versions.change(file);
                    long.notify(&method, did_change(file, text, v))
                        .map(|_| None)
                }
            }
            Ev::ChangeN { file, texts } => {
                method = "textDocument/didChange".into();
                stats.buffer_events += 1;
                if let Some(last) = texts.last() {
                    if !world.open_order.contains(file) {
                        world.open_order.push(file.clone());
                    }
                    world.buffers.insert(file.clone(), last.clone());
                }
                let v = versions.change(file);
                long.notify(&method, did_change_n(file, texts, v))
                    .map(|_| None)
            }
            Ev::Close { file } => {
                method = "textDocument/didClose".into();
                stats.buffer_events += 1;
                world.open_order.retain(|f| f != file);
                world.buffers.remove(file);
                long.notify(&method, did_close(file)).map(|_| None)
            }
            Ev::Save { .. } => {
                method = "textDocument/didSave".into();
                stats.buffer_events += 1;
                let (m, p) = note_message(ev, &mut world, &mut versions).unwrap();
                long.notify(&m, p).map(|_| None)
            }
            Ev::Burst { events } => {
                method = "burst/didChange".into();
                stats.buffer_events += events.len() as u64;
                *stats.faults.entry("notifications_already_waiting".to_string()).or_insert(0) += 1;
                let msgs: Vec<(String, Value)> = events
                    .iter()
                    .filter_map(|e| note_message(e, &mut world, &mut versions))
                    .collect();
                long.notify_burst(msgs).map(|_| None)
            }
            Ev::Req {
                kind,
                file,
                line,
                col,
                extra,
                pos_kind,
            } => {
                method = kind.clone();
                stats.requests += 1;
                *stats.pos_kinds.entry(pos_kind.clone()).or_insert(0) += 1;
                if seen_errors {
                    stats.had_errors_before_request = true;
                }
                let params = req_params(kind, file, *line, *col, extra);
                request = Some((kind.clone(), params.clone(), file.clone()));
                long.request(kind, params).map(Some)
            }
        };
        let answer = match res {
            Err(c) => return Some(crash_found(&c, "long_lived", &method, i)),
            Ok(a) => a,
        };
        if let Some(v) = super::passwatch::take_verdict() {
            return Some(nonterm_found(&v, "long_lived", &method, i));
        }
        // digest of what the server published in reaction to this event
        let mut dg = 0xcbf2_9ce4_8422_2325u64;
        for (u, n) in &long.publish_log[publish_mark..] {
            dg = rng::fnv64_extend(dg, u.as_bytes());
            dg = rng::fnv64_extend(dg, &n.to_le_bytes());
            if *n > 0 {
                seen_errors = true;
            }
        }
        if request.is_none() && dg != last_digest {
            stats.digest_changes += 1;
            last_digest = dg;
        }
        // well-formedness of what was just published: every diagnostic range lies inside the document it is about
        {
            let touched: BTreeSet<&String> = long.publish_log[publish_mark..].iter().map(|(u, _)| u).collect();
            for u in touched {
                let text = match world.text_of_uri(u) {
                    Some(t) => t,
                    None => continue,
                };
                for d in long.published.get(u).map(|v| v.as_slice()).unwrap_or(&[]) {
                    let r = &d["range"];
                    let g = |a: &str, b: &str| r[a][b].as_u64();
                    if let (Some(sl), Some(sc), Some(el), Some(ec)) = (g("start", "line"), g("start", "character"), g("end", "line"), g("end", "character")) {
                        stats.ranges_checked += 1;
                        if let Err(e) = range_inside(&text, (sl, sc, el, ec)) {
                            return Some(Found {
                                class: "malformed_range".into(),
                                sig: "malformed_range:publishDiagnostics:range".into(),
                                message: format!(
                                    "after event {} ({}): published diagnostic {:?} for {} has range {:?} which is not inside the document: {}",
                                    i, ev.kind_name(), d["message"].as_str().unwrap_or(""), u, (sl, sc, el, ec), e
                                ),
                                at_event: i,
                            });
                        }
                    }
                }
            }
        }
        trace = rng::fnv64_extend(trace, &dg.to_le_bytes());
        stats.log.push(format!(
            "#{} {} published={:?}",
            i,
            ev.kind_name(),
            &long.publish_log[publish_mark..]
        ));

        // survival: exactly one response with the right id
        let long_answer = match &answer {
            Some(Err(e)) => {
                return Some(Found {
                    class: "no_response".into(),
                    sig: format!("no_response:{}", method),
                    message: format!("request {} at event {}: {}", method, i, e),
                    at_event: i,
                })
            }
            Some(Ok(v)) => Some(v.clone()),
            None => None,
        };

        // reference model: a fresh real server given only the current buffers
        let mut fresh = match fresh_node(&world, stats) {
            Ok(f) => f,
            Err(c) => return Some(crash_found(&c, "fresh", "startup+didOpen", i)),
        };
        if let Some(v) = super::passwatch::take_verdict() {
            return Some(nonterm_found(&v, "fresh", "startup+didOpen", i));
        }
        stats.comparisons += 1;
        // With no buffer open the reference has had no occasion to publish anything (the server only
        // publishes in reaction to buffer events), so "last published" is only compared when at least
        // one document is open; request answers are compared in every state.
        let diag = if world.open_order.is_empty() {
            None
        } else {
            diag_diff(&long, &fresh)
        };
        if let Some((kind, msg)) = diag {
            return Some(Found {
                class: "history_dependent_diagnostics".into(),
                sig: format!(
                    "diag_mismatch:{}:after_{}",
                    kind,
                    method.rsplit('/').next().unwrap_or("")
                ),
                message: format!("after event {} ({}): {}", i, ev.kind_name(), msg),
                at_event: i,
            });
        }
        if let (Some((kind, params, file)), Some(la)) = (&request, &long_answer) {
            if !la.is_null() {
                stats.nonnull_answers += 1;
            }
            // well-formedness of the long-lived server's answer
            let ru = uri(file);
            if kind == "textDocument/semanticTokens/full" {
                if let Some(data) = la.get("data") {
                    let text = world.text_of(file).unwrap_or_default();
                    match check_tokens(&text, data) {
                        Ok(n) => stats.tokens_checked += n as u64,
                        Err(e) => {
                            return Some(Found {
                                class: "malformed_semantic_tokens".into(),
                                sig: format!(
                                    "malformed_tokens:{}",
                                    e.split(' ').skip(2).take(3).collect::<Vec<_>>().join("_")
                                ),
                                message: format!(
                                    "semantic tokens for {} at event {}: {}",
                                    file, i, e
                                ),
                                at_event: i,
                            })
                        }
                    }
                }
            } else {
                let mut ranges = vec![];
                collect_ranges(la, Some(&ru), Some(&ru), &mut ranges);
                for (u, r, key) in ranges {
                    stats.ranges_checked += 1;
                    let u = u.unwrap_or_else(|| ru.clone());
                    let verdict = match world.text_of_uri(&u) {
                        Some(t) => range_inside(&t, r),
                        None => {
                            Err("the document does not exist (no buffer, no readable file)".into())
                        }
                    };
                    if let Err(e) = verdict {
                        return Some(Found {
                            class: "malformed_range".into(),
                            sig: format!("malformed_range:{}:{}", kind, key),
                            message: format!(
                                "{} at event {}: {} {:?} in {} is not inside the document: {}",
                                kind, i, key, r, u, e
                            ),
                            at_event: i,
                        });
                    }
                }
            }
            // refinement: same request to the fresh server(s)
            let fa = match fresh.request(kind, params.clone()) {
                Err(c) => return Some(crash_found(&c, "fresh", kind, i)),
                Ok(Err(e)) => {
                    return Some(Found {
                        class: "no_response".into(),
                        sig: format!("no_response:fresh:{}", kind),
                        message: format!("fresh server, request {} at event {}: {}", kind, i, e),
                        at_event: i,
                    })
                }
                Ok(Ok(v)) => v,
            };
            let cl = canonical(la);
            let cf = canonical(&fa);
            // seed dependence searched directly: further fresh servers (each
            // gets its own RandomState keys from the simulated entropy stream)
            let mut fresh_answers = vec![cf.clone()];
            for _ in 1..seed_checks {
                let mut f2 = match fresh_node(&world, stats) {
                    Ok(f) => f,
                    Err(c) => return Some(crash_found(&c, "fresh", "startup+didOpen", i)),
                };
                match f2.request(kind, params.clone()) {
                    Ok(Ok(v)) => fresh_answers.push(canonical(&v)),
                    Ok(Err(_)) => {}
                    Err(c) => return Some(crash_found(&c, "fresh", kind, i)),
                }
            }
            let fresh_disagree = fresh_answers.iter().any(|a| a != &fresh_answers[0]);
            if fresh_disagree || cl != cf {
                let mut seed_dependent = fresh_disagree;
                if !seed_dependent {
                    // classification only: ask 8 further fresh servers
                    for _ in 0..8 {
                        if let Ok(mut f2) = fresh_node(&world, stats) {
                            if let Ok(Ok(v)) = f2.request(kind, params.clone()) {
                                if canonical(&v) != cf {
                                    seed_dependent = true;
                                    break;
                                }
                            }
                        }
                    }
                }
                let class = if seed_dependent {
                    "seed_dependent_answer"
                } else {
                    "history_dependent_answer"
                };
                let other = if fresh_disagree {
                    fresh_answers
                        .iter()
                        .find(|a| *a != &fresh_answers[0])
                        .cloned()
                        .unwrap()
                } else {
                    cl.clone()
                };
                return Some(Found {
                    class: class.into(),
                    sig: format!("{}:{}", class, kind),
                    message: format!(
                        "{} at event {} ({}:{}:{}): {} -- answer A {} vs fresh server {}",
                        kind,
                        i,
                        file,
                        match ev {
                            Ev::Req { line, .. } => *line,
                            _ => 0,
                        },
                        match ev {
                            Ev::Req { col, .. } => *col,
                            _ => 0,
                        },
                        class,
                        other,
                        fresh_answers[0]
                    ),
                    at_event: i,
                });
            }
            trace = rng::fnv64_extend(trace, cl.to_string().as_bytes());
            tail_answers.push((i, cl));
        }
    }
    stats.trace_hash = trace;
    // Last of all: a fresh server in a fresh REAL process. The fresh servers above are threads of this worker
    // process; whatever lives in the process itself (a static that is filled on first use) they share with the
    // long-lived server and with every history this worker has run before.
    if FRESH_PROCESS.with(|f| f.get()) && !world.open_order.is_empty() {
        stats.fresh_processes += 1;
        match fresh_process(h) {
            Ok(fp) => {
                let empty: Vec<Value> = vec![];
                let uris: BTreeSet<&String> = long.published.keys().chain(fp.published.keys()).collect();
                for u in uris {
                    let a = long.published.get(u).unwrap_or(&empty);
                    let b = fp.published.get(u).unwrap_or(&empty);
                    if a != b {
                        return Some(Found {
                            class: "history_dependent_diagnostics".into(),
                            sig: "diag_mismatch:fresh_process".into(),
                            message: format!("at the end of the history the last published diagnostics for {} differ: long-lived server {} vs a fresh server in a fresh process {}", u, Value::Array(a.clone()), Value::Array(b.clone())),
                            at_event: h.events.len().saturating_sub(1),
                        });
                    }
                }
                for (i, a) in &tail_answers {
                    if let Some(b) = fp.answers.get(i) {
                        if a != b {
                            let kind = h.events[*i].kind_name();
                            return Some(Found {
                                class: "history_dependent_answer".into(),
                                sig: format!("fresh_process_answer:{}", kind),
                                message: format!("{} at event {}: the long-lived server answers {} , a fresh server in a fresh process {}", kind, i, a, b),
                                at_event: *i,
                            });
                        }
                    }
                }
            }
            Err(e) => stats.log.push(format!("fresh process: {}", e)),
        }
    }
    None
}

thread_local! {
    /// whether histories end with a fresh server in a fresh real process (off inside that process itself)
    static FRESH_PROCESS: std::cell::Cell<bool> = const { std::cell::Cell::new(true) };
}

struct FreshProcess {
    published: BTreeMap<String, Vec<Value>>,
    /// event index -> canonical answer, for the requests after the last buffer or disk event
    answers: BTreeMap<usize, Value>,
}

/// What the history leaves behind: the open buffers (in opening order) and the index of the first request of its tail.
fn final_world(h: &History) -> (World, usize) {
    let mut world = World { open_order: vec![], buffers: BTreeMap::new() };
    let mut tail_from = 0;
    for (i, ev) in h.events.iter().enumerate() {
        match ev {
            Ev::Open { file, text } | Ev::Change { file, text } => {
                if !world.open_order.contains(file) {
                    world.open_order.push(file.clone());
                }
                world.buffers.insert(file.clone(), text.clone());
            }
            Ev::ChangeN { file, texts } => {
                if let Some(last) = texts.last() {
                    if !world.open_order.contains(file) {
                        world.open_order.push(file.clone());
                    }
                    world.buffers.insert(file.clone(), last.clone());
                }
            }
            Ev::Close { file } => {
                world.open_order.retain(|f| f != file);
                world.buffers.remove(file);
            }
            Ev::Burst { events } => {
                let mut versions = Versions::new(0);
                for e in events {
                    let _ = note_message(e, &mut world, &mut versions);
                }
            }
            Ev::Disk { .. } | Ev::Req { .. } | Ev::Save { .. } => {}
        }
        if !matches!(ev, Ev::Req { .. }) {
            tail_from = i + 1;
        }
    }
    (world, tail_from)
}

/// Parent side: run the end of the history in a child process.
fn fresh_process(h: &History) -> Result<FreshProcess, String> {
    static N: std::sync::atomic::AtomicU64 = std::sync::atomic::AtomicU64::new(0);
    let dir = verif_root().join("target").join("cases");
    std::fs::create_dir_all(&dir).map_err(|e| e.to_string())?;
    let path = dir.join(format!("fp-{}-{}.json", std::process::id(), N.fetch_add(1, std::sync::atomic::Ordering::SeqCst)));
    write_json(&path, &h.to_json()).map_err(|e| e.to_string())?;
    let exe = std::env::current_exe().map_err(|e| e.to_string())?;
    let out = std::process::Command::new(exe).arg("C14").arg("--mode").arg("fresh1").arg("--case").arg(&path).output();
    let _ = std::fs::remove_file(&path);
    let out = out.map_err(|e| e.to_string())?;
    let text = String::from_utf8_lossy(&out.stdout);
    let v: Value = serde_json::from_str(text.trim()).map_err(|e| format!("child output: {} ({:?})", e, out.status))?;
    let mut published = BTreeMap::new();
    for (k, x) in v.get("published").and_then(|p| p.as_object()).ok_or("no published")? {
        published.insert(k.clone(), x.as_array().cloned().unwrap_or_default());
    }
    let mut answers = BTreeMap::new();
    for (k, x) in v.get("answers").and_then(|p| p.as_object()).ok_or("no answers")? {
        if let Ok(i) = k.parse::<usize>() {
            answers.insert(i, x.clone());
        }
    }
    Ok(FreshProcess { published, answers })
}

/// Child side (`--mode fresh1`): the final disk, the final buffers, the tail requests - nothing else.
fn fresh1(cli: &Cli) -> i32 {
    let h = match cli.opts.get("case").and_then(|p| read_json(Path::new(p)).ok()).and_then(|v| History::from_json(&v)) {
        Some(h) => h,
        None => return EXIT_HARNESS,
    };
    let r = fresh_thread(8 << 20, move || {
        FRESH_PROCESS.with(|f| f.set(false));
        entropy::set_seed(Some(rng::derive(h.entropy_seed, "lspsim.fresh_process", 0)));
        env::set_cwd(Some(PathBuf::from(WS)));
        let mut d = SimDisk::new();
        d.add_dir(WS);
        if let Some(t) = &h.toml {
            d.add_file(format!("{}/mos.toml", WS), t.as_bytes().to_vec());
        }
        for (f, st) in &h.disk {
            apply_disk_state(&mut d, f, st);
        }
        for ev in &h.events {
            if let Ev::Disk { file, state } = ev {
                apply_disk_state(&mut d, file, state);
            }
        }
        d.read_budget = Some(200_000);
        disk::install(d);
        super::passwatch::install();
        let (world, tail_from) = final_world(&h);
        let mut stats = RunStats::default();
        let mut out = json!({"published": {}, "answers": {}});
        if let Ok(mut f) = fresh_node(&world, &mut stats) {
            out["published"] = json!(f.published);
            let mut answers = serde_json::Map::new();
            for (i, ev) in h.events.iter().enumerate().skip(tail_from) {
                if let Ev::Req { kind, file, line, col, extra, .. } = ev {
                    if let Ok(Ok(v)) = f.request(kind, req_params(kind, file, *line, *col, extra)) {
                        answers.insert(i.to_string(), canonical(&v));
                    }
                }
            }
            out["answers"] = Value::Object(answers);
        }
        let _ = super::passwatch::uninstall();
        disk::uninstall();
        out
    });
    match r {
        Ok(v) => {
            println!("{}", v);
            EXIT_OK
        }
        Err(_) => EXIT_HARNESS,
    }
}

// ---------------------------------------------------------------------------------------
// History generation
// ---------------------------------------------------------------------------------------

fn gen_position(rng: &mut Rng, cur: Option<&str>, old: Option<&str>) -> (u32, u32, String) {
    let roll = rng.below(100);
    let text = cur.unwrap_or("");
    let lines: Vec<&str> = text.split('\n').collect();
    if roll < 60 {
        let ps = lc::positions(text);
        if !ps.is_empty() {
            let (l, c, k) = ps[rng.below(ps.len())];
            return (l, c, k.to_string());
        }
    }
    if roll < 75 {
        if let Some(o) = old {
            let ps = lc::positions(o);
            if !ps.is_empty() {
                let (l, c, _) = ps[rng.below(ps.len())];
                return (l, c, "stale".to_string());
            }
        }
    }
    // out of range
    let l = rng.below(lines.len().max(1));
    let len = lines.get(l).map(|s| s.len()).unwrap_or(0) as u32;
    match rng.below(7) {
        0 => (l as u32, len + 1, "col_past_eol_1".into()),
        1 => (l as u32, len + 50, "col_past_eol_50".into()),
        2 => (l as u32, u32::MAX, "col_u32_max".into()),
        3 => (lines.len() as u32, 0, "line_eq_count".into()),
        4 => (lines.len() as u32 + 5, 3, "line_past_eof".into()),
        5 => (u32::MAX, 0, "line_u32_max".into()),
        _ => (0, 0, "origin".into()),
    }
}

/// One history in six is typed on a keyboard that produces other blanks than U+0020 after the slashes of a comment
/// (no-break space: Alt+Space on a Mac; ideographic space: a CJK input method): every text of the history - disk,
/// didOpen, didChange - gets them. The draws of the history itself are untouched (its own PRNG stream decides this).
pub fn gen_history(seed: u64, k: u64, max_events: usize) -> History {
    let h = gen_history_plain(seed, k, max_events);
    let coin = rng::derive(seed, "lspsim.blanks", k) % 12;
    if coin >= 2 {
        return h;
    }
    let blank = if coin == 0 { "\u{a0}" } else { "\u{3000}" };
    let js = h.to_json().to_string();
    let js = js.replace("/// ", &format!("///{}", blank)).replace("// ", &format!("//{}", blank));
    let mut v: Value = match serde_json::from_str(&js) {
        Ok(v) => v,
        Err(_) => return h,
    };
    // ... and whoever wrote such a comment looks at it: after the first didOpen / didChange whose text has a documented
    // label, the client hovers over that label (definition line, second character)
    if let Some(evs) = v.get_mut("events").and_then(|e| e.as_array_mut()) {
        let mut at = None;
        for (i, e) in evs.iter().enumerate() {
            let op = e["op"].as_str().unwrap_or("");
            if op != "open" && op != "change" {
                continue;
            }
            let (file, text) = (e["file"].as_str().unwrap_or(""), e["text"].as_str().unwrap_or(""));
            let lines: Vec<&str> = text.split('\n').collect();
            for (ln, l) in lines.iter().enumerate() {
                if ln > 0 && lines[ln - 1].trim_start().starts_with("///") && !l.trim_start().starts_with("//") && l.trim().len() > 2 {
                    at = Some((i, file.to_string(), ln));
                    break;
                }
            }
            if at.is_some() {
                break;
            }
        }
        if let Some((i, file, ln)) = at {
            evs.insert(
                i + 1,
                json!({"op": "req", "kind": "textDocument/hover", "file": file, "line": ln, "col": 1, "extra": "", "pos_kind": "documented_label"}),
            );
        }
    }
    match History::from_json(&v) {
        Some(h2) => h2,
        None => {
            if std::env::var("VERIF_DEBUG").is_ok() {
                eprintln!("blanks: history {} does not survive the JSON round trip", k);
            }
            h
        }
    }
}

fn gen_history_plain(seed: u64, k: u64, max_events: usize) -> History {
    let mut rng = Rng::new(rng::derive(seed, "lspsim.history", k));
    let mut disk = BTreeMap::new();
    let mut model_disk: BTreeMap<String, Option<String>> = BTreeMap::new();
    for f in lc::FILES {
        let vs = lc::variants_of(f);
        let st = if *f != "main.asm" && rng.chance(1, 5) {
            DiskState::Missing
        } else {
            DiskState::Text(rng.pick(vs).to_string())
        };
        model_disk.insert(
            f.to_string(),
            match &st {
                DiskState::Text(t) => Some(t.clone()),
                _ => None,
            },
        );
        disk.insert(f.to_string(), st);
    }
    let toml = match rng.below(10) {
        0 => None,
        1 => Some("[build]\nentry = \"other.asm\"\n".to_string()),
        _ => Some("[build]\nentry = \"main.asm\"\n".to_string()),
    };
    model_disk.insert("mos.toml".to_string(), toml.clone());
    // swarm knobs
    let w_multi = rng.below(4) as u32;
    let w_req = 6 + rng.below(10) as u32;
    let w_mut = 2 + rng.below(8) as u32;
    let w_var = 1 + rng.below(3) as u32;
    let w_type = rng.below(4) as u32;
    let w_close = rng.below(4) as u32;
    let w_open = 1 + rng.below(3) as u32;
    let w_disk = rng.below(3) as u32;
    let n_events = rng.range(4, max_events.max(4));

    let mut buffers: BTreeMap<String, String> = BTreeMap::new();
    let mut old_texts: BTreeMap<String, String> = BTreeMap::new();
    let mut events = vec![];
    // requests already issued: re-asking the same question after an edit is what exposes
    // answers that are cached or otherwise carried over from an earlier state
    let mut past_requests: Vec<Ev> = vec![];
    let w_repeat = rng.below(6) as u32;
    // an editor opens the entry file first, with what is on disk
    if rng.chance(9, 10) {
        let t = model_disk["main.asm"].clone().unwrap_or_default();
        buffers.insert("main.asm".into(), t.clone());
        events.push(Ev::Open {
            file: "main.asm".into(),
            text: t,
        });
    }
    while events.len() < n_events {
        let choice = rng.weighted(&[
            w_req,
            w_mut,
            w_var,
            w_type,
            w_close,
            w_open,
            w_disk,
            if past_requests.is_empty() {
                0
            } else {
                w_repeat
            },
        ]);
        match choice {
            7 => {
                let e = pick_earlier_request(&mut rng, &past_requests);
                events.push(e);
            }
            0 => {
                // one request in forty is for something the server does not implement
                let kind = if rng.chance(1, 40) {
                    "textDocument/foldingRange".to_string()
                } else {
                    rng.pick(REQ_KINDS).to_string()
                };
                let roll = rng.below(100);
                let open: Vec<String> = buffers.keys().cloned().collect();
                let file = if roll < 70 && !open.is_empty() {
                    rng.pick(&open).clone()
                } else if roll < 85 {
                    rng.pick(lc::FILES).to_string()
                } else if roll < 92 {
                    "ghost.asm".to_string()
                } else if roll < 95 {
                    UNTITLED.to_string()
                } else {
                    "/elsewhere/x.asm".to_string()
                };
                let cur = buffers
                    .get(&file)
                    .cloned()
                    .or_else(|| model_disk.get(&file).cloned().flatten());
                let (line, col, pos_kind) = gen_position(
                    &mut rng,
                    cur.as_deref(),
                    old_texts.get(&file).map(|s| s.as_str()),
                );
                let extra = match kind.as_str() {
                    "textDocument/rename" => rng
                        .pick(&["renamed", "x", "other_routine", "a.b", "", "super", "1abc"][..])
                        .to_string(),
                    "workspace/symbol" => rng.pick(&["", "s", "other", "zzz", "é"][..]).to_string(),
                    "textDocument/references" => rng.pick(&["", "nodecl"][..]).to_string(),
                    _ => String::new(),
                };
                // ... and one in thirty gets its parameters wrong
                let extra = if rng.chance(1, 30) {
                    rng.pick(&["malformed:empty", "malformed:null", "malformed:types", "malformed:negative", "malformed:uri"][..]).to_string()
                } else {
                    extra
                };
let writer = matches!(kind.as_str(), "textDocument/rename" | "textDocument/formatting" | "textDocument/onTypeFormatting" | "textDocument/codeLens" | "textDocument/completion" | "textDocument/prepareRename");
                let e = Ev::Req { kind, file: file.clone(), line, col, extra, pos_kind };
                past_requests.push(e.clone());
                events.push(e);
                // a request that might leave something behind is followed at once - no edit in between - by
                // requests that would see it
                if writer && rng.chance(1, 2) {
                    for _ in 0..rng.range(1, 3) {
                        let kind2 = rng.pick(&["textDocument/completion", "textDocument/rename", "textDocument/hover", "textDocument/definition", "textDocument/references", "textDocument/documentSymbol", "textDocument/semanticTokens/full", "textDocument/documentHighlight"][..]).to_string();
                        let (l2, c2, pk2) = gen_position(&mut rng, cur.as_deref(), None);
                        let extra2 = if kind2 == "textDocument/rename" { rng.pick(&["zap", "renamed", "x"][..]).to_string() } else { String::new() };
                        let e2 = Ev::Req { kind: kind2, file: file.clone(), line: l2, col: c2, extra: extra2, pos_kind: pk2 };
                        past_requests.push(e2.clone());
                        events.push(e2);
                    }
                }
            }
            1 | 2 | 3 => {
                let open: Vec<String> = buffers.keys().cloned().collect();
                if open.is_empty() {
                    continue;
                }
                let file = rng.pick(&open).clone();
                let cur = buffers[&file].clone();
                // "sandwich": a question about ANOTHER file of the project just before this edit, and the same question
                // again just after it - answers that depend on more than the document they are about (lenses of a test
                // whose file imports this one, symbols, tokens) must follow
                let sandwich: Option<Ev> = if rng.chance(1, 3) {
                    let others: Vec<&str> = lc::FILES.iter().cloned().filter(|f| *f != file).collect();
                    let y = rng.pick(&others).to_string();
                    let ycur = buffers.get(&y).cloned().or_else(|| model_disk.get(&y).cloned().flatten());
                    let kind = rng
                        .pick(&["textDocument/codeLens", "textDocument/codeLens", "textDocument/codeLens", "textDocument/documentSymbol", "textDocument/semanticTokens/full", "textDocument/hover", "textDocument/definition", "textDocument/references", "workspace/symbol"][..])
                        .to_string();
                    let (line, col, pos_kind) = gen_position(&mut rng, ycur.as_deref(), None);
                    Some(Ev::Req { kind, file: y, line, col, extra: String::new(), pos_kind })
                } else {
                    None
                };
                if let Some(e) = &sandwich {
                    // (a request may not follow a disk event directly)
                    if !matches!(events.last(), Some(Ev::Disk { .. })) {
                        past_requests.push(e.clone());
                        events.push(e.clone());
                    }
                }
                let new_texts: Vec<String> = match choice {
                    1 => vec![lc::mutate(&mut rng, &cur)],
                    2 => vec![rng.pick(lc::variants_of(&file)).to_string()],
                    _ => {
                        let to = rng.pick(lc::variants_of(&file)).to_string();
                        lc::typing_sequence(&mut rng, &cur, &to, 4)
                    }
                };
                if rng.chance(w_multi, 12) {
                    // one notification with no, two or three content changes (each a full text)
                    let mut texts: Vec<String> = vec![];
                    if !rng.chance(1, 4) {
                        texts.push(lc::mutate(&mut rng, &cur));
                        if rng.chance(1, 3) {
                            texts.push(rng.pick(lc::variants_of(&file)).to_string());
                        }
                        texts.push(new_texts.last().cloned().unwrap_or_default());
                    }
                    if let Some(last) = texts.last() {
                        old_texts.insert(file.clone(), buffers[&file].clone());
                        buffers.insert(file.clone(), last.clone());
                    }
                    events.push(Ev::ChangeN {
                        file: file.clone(),
                        texts,
                    });
                } else {
                    for t in new_texts {
                        old_texts.insert(file.clone(), buffers[&file].clone());
                        buffers.insert(file.clone(), t.clone());
                        events.push(Ev::Change {
                            file: file.clone(),
                            text: t,
                        });
                    }
                }
                if let Some(e) = sandwich {
                    events.push(e);
                }
                if !past_requests.is_empty() && rng.chance(w_repeat, 12) {
                    let e = pick_earlier_request(&mut rng, &past_requests);
                    events.push(e);
                }
            }
            4 => {
                let open: Vec<String> = buffers.keys().cloned().collect();
                if open.is_empty() {
                    continue;
                }
                let file = rng.pick(&open).clone();
                // editors usually save before closing; sometimes they do not
                // editors usually save before closing; sometimes they do not - and a document that was never
                // saved (it exists in the editor only) is more often discarded than not
                let never_saved = model_disk.get(&file).cloned().flatten().is_none();
                if rng.chance(if never_saved { 1 } else { 2 }, 3) && !file.starts_with("untitled:")
                {
                    let t = buffers[&file].clone();
                    model_disk.insert(file.clone(), Some(t.clone()));
                    events.push(Ev::Disk {
                        file: file.clone(),
                        state: DiskState::Text(t),
                    });
                }
                old_texts.insert(file.clone(), buffers[&file].clone());
                buffers.remove(&file);
                events.push(Ev::Close { file });
            }
            5 => {
                let docs: &[&str] = if rng.chance(1, 3) {
                    lc::DOCS
                } else {
                    lc::FILES
                };
                let closed: Vec<&str> = docs
                    .iter()
                    .cloned()
                    .filter(|f| !buffers.contains_key(*f))
                    .collect();
                if closed.is_empty() {
                    continue;
                }
                // (the project file is one document among six, and the one whose buffer decides what the project IS:
                // one open in seven goes to it, when it is closed)
                let file = if rng.chance(1, 7) && !buffers.contains_key("mos.toml") {
                    "mos.toml".to_string()
                } else {
                    rng.pick(&closed).to_string()
                };
                // a buffer of mos.toml differs from the disk more often than not: that is what it was opened for
                let keep_disk = if file == "mos.toml" { rng.chance(1, 3) } else { rng.chance(4, 5) };
                let t = match (model_disk.get(&file).cloned().flatten(), keep_disk) {
                    (Some(t), true) => t,
                    _ => rng.pick(lc::variants_of(&file)).to_string(),
                };
                buffers.insert(file.clone(), t.clone());
                events.push(Ev::Open { file, text: t });
            }
            _ => {
                // disk change, immediately followed by a buffer event on another file
                let open: Vec<String> = buffers.keys().cloned().collect();
                if open.is_empty() {
                    continue;
                }
                let closed: Vec<&str> = lc::FILES
                    .iter()
                    .cloned()
                    .filter(|f| !buffers.contains_key(*f))
                    .collect();
                if closed.is_empty() {
                    continue;
                }
                let file = rng.pick(&closed).to_string();
                let state = match rng.below(5) {
                    0 => DiskState::Missing,
                    1 => DiskState::Unreadable,
                    2 => DiskState::InvalidUtf8,
                    _ => DiskState::Text(rng.pick(lc::variants_of(&file)).to_string()),
                };
                model_disk.insert(
                    file.clone(),
                    match &state {
                        DiskState::Text(t) => Some(t.clone()),
                        _ => None,
                    },
                );
                events.push(Ev::Disk { file, state });
                let bf = rng.pick(&open).clone();
                let t = buffers[&bf].clone();
                events.push(Ev::Change { file: bf, text: t });
            }
        }
    }
    // Delivery timing: in one history out of three the client is at times ahead of the server. A run of buffer
    // notifications becomes one burst (all but the first already waiting when the first is handled); a save or a
    // change notification without content changes may ride along, as editors send them (format on save, a
    // plug-in that touches the document).
    if rng.chance(1, 3) {
        let mut out: Vec<Ev> = vec![];
        let mut i = 0;
        while i < events.len() {
            let is_note = |e: &Ev| matches!(e, Ev::Open { .. } | Ev::Change { .. } | Ev::ChangeN { .. } | Ev::Close { .. });
            let after_disk = matches!(out.last(), Some(Ev::Disk { .. }));
            if is_note(&events[i]) && !after_disk && rng.chance(1, 3) {
                let mut inner = vec![events[i].clone()];
                let mut j = i + 1;
                while j < events.len() && inner.len() < 4 && is_note(&events[j]) && rng.chance(2, 3) {
                    inner.push(events[j].clone());
                    j += 1;
                }
                // the file the last notification was about, if it is still open after it
                let tail_file = match inner.last() {
                    Some(Ev::Open { file, .. }) | Some(Ev::Change { file, .. }) | Some(Ev::ChangeN { file, .. }) => Some(file.clone()),
                    _ => None,
                };
                if let Some(f) = tail_file {
                    match rng.below(4) {
                        0 => inner.push(Ev::Save { file: f }),
                        1 => inner.push(Ev::ChangeN { file: f, texts: vec![] }),
                        _ => {}
                    }
                }
                if inner.len() > 1 {
                    out.push(Ev::Burst { events: inner });
                    i = j;
                    continue;
                }
            }
            out.push(events[i].clone());
            i += 1;
        }
        events = out;
    }
    History {
        entropy_seed: rng::derive(seed, "lspsim.entropy", k),
        disk,
        toml,
        events,
    }
}

/// An earlier request to repeat: one of the distinct (kind, document) pairs asked so far, each equally likely (so a
/// kind that is asked rarely is repeated as readily as a common one), in its latest form.
fn pick_earlier_request(rng: &mut Rng, past: &[Ev]) -> Ev {
    let mut latest: BTreeMap<(String, String), &Ev> = BTreeMap::new();
    for e in past {
        if let Ev::Req { kind, file, .. } = e {
            latest.insert((kind.clone(), file.clone()), e);
        }
    }
    let keys: Vec<&(String, String)> = latest.keys().collect();
    if keys.is_empty() {
        return rng.pick(past).clone();
    }
    let k = keys[rng.below(keys.len())].clone();
    latest[&k].clone()
}

fn legal(events: &[Ev]) -> bool {
    // (bursts count as the notifications they carry)
    let mut flat: Vec<&Ev> = vec![];
    for e in events {
        match e {
            Ev::Burst { events } => {
                if events.is_empty() || events.iter().any(|e| matches!(e, Ev::Burst { .. } | Ev::Req { .. } | Ev::Disk { .. })) {
                    return false;
                }
                flat.extend(events.iter());
            }
            e => flat.push(e),
        }
    }
    let mut open: BTreeSet<&str> = BTreeSet::new();
    let mut prev_disk = false;
    for e in flat {
        match e {
            Ev::Open { file, .. } => {
                if !open.insert(file) {
                    return false;
                }
            }
            Ev::Change { file, .. } | Ev::ChangeN { file, .. } => {
                if !open.contains(file.as_str()) {
                    return false;
                }
            }
            Ev::Close { file } => {
                if !open.remove(file.as_str()) {
                    return false;
                }
            }
            Ev::Save { file } => {
                if !open.contains(file.as_str()) {
                    return false;
                }
            }
            Ev::Req { .. } => {
                // a disk change must be followed by a buffer event before any request
                if prev_disk {
                    return false;
                }
            }
            Ev::Disk { .. } | Ev::Burst { .. } => {}
        }
        prev_disk = matches!(e, Ev::Disk { .. });
    }
    !prev_disk
}

fn run_history(h: &History, seed_checks: usize) -> (Option<Found>, RunStats) {
    let h2 = h.clone();
    let r = fresh_thread(8 << 20, move || {
        let mut st = RunStats::default();
        let f = execute(&h2, seed_checks, &mut st);
        (f, st)
    });
    match r {
        Ok(x) => x,
        Err(p) => (
            Some(Found {
                class: "harness_panic".into(),
                sig: format!(
                    "harness_panic@{}",
                    p.first()
                        .map(|p| short_loc(&p.location))
                        .unwrap_or_default()
                ),
                message: format!("panic outside the server under test: {:?}", p.first()),
                at_event: 0,
            }),
            RunStats::default(),
        ),
    }
}

fn found_json(f: &Found) -> Value {
    let mut msg = f.message.clone();
    if msg.len() > 4000 {
        let mut cut = 4000;
        while !msg.is_char_boundary(cut) {
            cut -= 1;
        }
        msg.truncate(cut);
        msg.push_str(" ...");
    }
    json!({"class": f.class, "sig": f.sig, "message": msg, "at_event": f.at_event})
}

fn found_from_json(v: &Value) -> Option<Found> {
    Some(Found {
        class: v.get("class")?.as_str()?.to_string(),
        sig: v.get("sig")?.as_str()?.to_string(),
        message: v.get("message")?.as_str()?.to_string(),
        at_event: v.get("at_event")?.as_u64()? as usize,
    })
}

fn case_json(h: &History, seed_checks: usize) -> Value {
    let mut v = h.to_json();
    if let Value::Object(m) = &mut v {
        m.insert("seed_checks".into(), json!(seed_checks));
    }
    v
}

/// Run one history in a child process: a stack overflow or abort inside the
/// server is then an observation ("process death"), not the end of the check.
fn run_isolated_history(cli: &Cli, h: &History, seed_checks: usize) -> Option<Found> {
    match run_isolated(cli, &case_json(h, seed_checks), 120) {
        Ok(Some(v)) => found_from_json(&v),
        Ok(None) => None,
        Err(how) => Some(Found {
            class: "process_death".into(),
            sig: format!("process_death:{}", how),
            message: format!(
                "the server process died ({}) while executing the history",
                how
            ),
            at_event: h.events.len().saturating_sub(1),
        }),
    }
}

fn minimise(cli: &Cli, h: &History, found: &Found, seed_checks: usize) -> (History, Found) {
    let sig = found.sig.clone();
    let mut best = h.clone();
    let mut best_found = found.clone();
    // cut after the failing event
    if found.class != "process_death" {
        best.events.truncate(found.at_event + 1);
    }
    let same = |c: &History| -> bool {
        matches!(run_isolated_history(cli, c, seed_checks), Some(f) if f.sig == sig)
    };
    if !same(&best) {
        return (h.clone(), found.clone());
    }
    {
        let base = best.clone();
        let mut test = |evs: &[Ev]| -> bool {
            if !legal(evs) {
                return false;
            }
            let mut c = base.clone();
            c.events = evs.to_vec();
            same(&c)
        };
        let evs = ddmin(best.events.clone(), &mut test);
        best.events = evs;
    }
    // bursts: deliver one at a time instead, or drop members
    let mut idx = 0;
    while idx < best.events.len() {
        if let Ev::Burst { events: inner } = best.events[idx].clone() {
            let mut c = best.clone();
            c.events.splice(idx..idx + 1, inner.iter().cloned());
            if legal(&c.events) && same(&c) {
                best = c;
                continue;
            }
            let kept = ddmin(inner, &mut |sub: &[Ev]| {
                if sub.is_empty() {
                    return false;
                }
                let mut c = best.clone();
                c.events[idx] = Ev::Burst { events: sub.to_vec() };
                legal(&c.events) && same(&c)
            });
            let mut c = best.clone();
            c.events[idx] = Ev::Burst { events: kept };
            if legal(&c.events) && same(&c) {
                best = c;
            }
        }
        idx += 1;
    }
    // drop disk entries
    for f in best.disk.keys().cloned().collect::<Vec<_>>() {
        let mut c = best.clone();
        c.disk.insert(f.clone(), DiskState::Missing);
        if same(&c) {
            best = c;
        }
    }
    // shrink texts: initial disk files and open/change events, line-wise
    for f in best.disk.keys().cloned().collect::<Vec<_>>() {
        let text = match &best.disk[&f] {
            DiskState::Text(t) => t.clone(),
            _ => continue,
        };
        let lines: Vec<String> = text.split_inclusive('\n').map(|s| s.to_string()).collect();
        if lines.len() < 2 {
            continue;
        }
        let base = best.clone();
        let kept = ddmin(lines, &mut |ls: &[String]| {
            let mut c = base.clone();
            c.disk.insert(f.clone(), DiskState::Text(ls.concat()));
            same(&c)
        });
        let mut c = best.clone();
        c.disk.insert(f.clone(), DiskState::Text(kept.concat()));
        if same(&c) {
            best = c;
        }
    }
    for idx in 0..best.events.len() {
        let (file, text, is_open) = match &best.events[idx] {
            Ev::Open { file, text } => (file.clone(), text.clone(), true),
            Ev::Change { file, text } => (file.clone(), text.clone(), false),
            _ => continue,
        };
        let lines: Vec<String> = text.split_inclusive('\n').map(|s| s.to_string()).collect();
        if lines.len() < 2 {
            continue;
        }
        let base = best.clone();
        let mk = |t: String| {
            if is_open {
                Ev::Open {
                    file: file.clone(),
                    text: t,
                }
            } else {
                Ev::Change {
                    file: file.clone(),
                    text: t,
                }
            }
        };
        let kept = ddmin(lines, &mut |ls: &[String]| {
            let mut c = base.clone();
            c.events[idx] = mk(ls.concat());
            same(&c)
        });
        let mut c = best.clone();
        c.events[idx] = mk(kept.concat());
        if same(&c) {
            best = c;
        }
    }
    if let Some(f) = run_isolated_history(cli, &best, seed_checks) {
        if f.sig == sig {
            best_found = f;
        }
    }
    (best, best_found)
}

/// The semantic token handler reads process-global lookup tables that only
/// `LspServer::start` initialises; do one real start/stop handshake first.
fn init_server_globals() {
    let mut ctx = LspContext::new();
    let client = ctx.listen_memory_verif();
    let t = std::thread::spawn(move || {
        let server = LspServer::new(ctx);
        let _ = server.start();
    });
    let _ = client.sender.send(Message::Request(Request {
        id: RequestId::from(1),
        method: "initialize".into(),
        params: json!({"capabilities": {}}),
    }));
    let _ = client.receiver.recv();
    let _ = client.sender.send(Message::Notification(Notification {
        method: "initialized".into(),
        params: json!({}),
    }));
    drop(client);
    let _ = t.join();
}

fn replay(cli: &Cli, path: &Path) -> i32 {
    let v = match read_json(path) {
        Ok(v) => v,
        Err(e) => {
            eprintln!("harness error: {}", e);
            return EXIT_HARNESS;
        }
    };
    let h = match History::from_json(&v) {
        Some(h) => h,
        None => {
            eprintln!("harness error: malformed replay file");
            return EXIT_HARNESS;
        }
    };
    let seed_checks = v.get("seed_checks").and_then(|s| s.as_u64()).unwrap_or(2) as usize;
    let f = run_isolated_history(cli, &h, seed_checks);
    let log_hash = rng::fnv64(format!("{:?}", f.as_ref().map(|f| (&f.sig, f.at_event))).as_bytes());
    let r = match f {
        Some(f) => ReplayResult {
            violated: true,
            sig: f.sig,
            class: f.class,
            message: f.message,
            log_hash,
        },
        None => ReplayResult {
            violated: false,
            sig: "-".into(),
            class: "-".into(),
            message: "history executed without violation".into(),
            log_hash,
        },
    };
    print_replay_result(PROP, &r)
}

fn stats_json(st: &RunStats, runs: u64) -> Value {
    json!({
        "runs": runs,
        "events": st.events, "buffer_events": st.buffer_events, "requests": st.requests,
        "fresh_servers": st.fresh_servers, "fresh_processes": st.fresh_processes, "comparisons": st.comparisons,
        "nonnull_answers": st.nonnull_answers, "tokens_checked": st.tokens_checked, "ranges_checked": st.ranges_checked,
        "codegen_invocations": st.codegen_invocations, "max_passes": st.max_passes, "max_lookups": st.max_lookups,
        "kinds": st.kinds, "pos_kinds": st.pos_kinds, "faults": st.faults,
    })
}

fn merge_stats(t: &mut RunStats, a: &RunStats) {
    t.events += a.events;
    t.buffer_events += a.buffer_events;
    t.requests += a.requests;
    t.fresh_servers += a.fresh_servers;
    t.fresh_processes += a.fresh_processes;
    t.comparisons += a.comparisons;
    t.nonnull_answers += a.nonnull_answers;
    t.tokens_checked += a.tokens_checked;
    t.ranges_checked += a.ranges_checked;
    t.codegen_invocations += a.codegen_invocations;
    t.max_passes = t.max_passes.max(a.max_passes);
    t.max_lookups = t.max_lookups.max(a.max_lookups);
    for (k, v) in &a.kinds {
        *t.kinds.entry(k.clone()).or_insert(0) += v;
    }
    for (k, v) in &a.pos_kinds {
        *t.pos_kinds.entry(k.clone()).or_insert(0) += v;
    }
    for (k, v) in &a.faults {
        *t.faults.entry(k.clone()).or_insert(0) += v;
    }
}

fn tier_params(tier: Tier) -> (u64, usize, usize) {
    match tier {
        Tier::Quick => (3_000u64, 24usize, 2usize),
        Tier::Thorough => (300_000u64, 40usize, 4usize),
    }
}

fn worker(cli: &Cli) -> i32 {
    let (_, max_events, seed_checks) = tier_params(cli.tier);
    let from = cli.opt_u64("from").unwrap_or(0);
    let to = cli.opt_u64("to").unwrap_or(0);
    let mut agg = RunStats::default();
    let mut n = 0u64;
    for k in from..to {
        let h = gen_history(cli.seed, k, max_events);
        let (found, st) = run_history(&h, seed_checks);
        merge_stats(&mut agg, &st);
        n += 1;
        let mut dg = st.trace_hash;
        if let Some(f) = &found {
            dg = rng::fnv64_extend(dg, f.sig.as_bytes());
            dg = rng::fnv64_extend(dg, &(f.at_event as u64).to_le_bytes());
        }
        let nontrivial = found.is_none()
            && st.buffer_events >= 2
            && st.digest_changes >= 2
            && st.had_errors_before_request;
        worker_emit_run(&RunReport {
            k,
            digest: dg,
            trace: st.trace_hash,
            nontrivial,
            found: found.as_ref().map(found_json),
        });
        if n % 100 == 0 {
            worker_emit_stats(&stats_json(&agg, n));
            agg = RunStats::default();
            n = 0;
        }
    }
    worker_emit_stats(&stats_json(&agg, n));
    worker_emit_done();
    EXIT_OK
}

fn one(cli: &Cli) -> i32 {
    let path = match cli.opts.get("case") {
        Some(p) => PathBuf::from(p),
        None => return EXIT_HARNESS,
    };
    let v = match read_json(&path) {
        Ok(v) => v,
        Err(_) => return EXIT_HARNESS,
    };
    let h = match History::from_json(&v) {
        Some(h) => h,
        None => return EXIT_HARNESS,
    };
    let seed_checks = v.get("seed_checks").and_then(|s| s.as_u64()).unwrap_or(2) as usize;
    let (found, st) = run_history(&h, seed_checks);
    if cli.opts.contains_key("dump") {
        for l in &st.log {
            println!("{}", l);
        }
    }
    worker_emit_run(&RunReport {
        k: 0,
        digest: st.trace_hash,
        trace: st.trace_hash,
        nontrivial: false,
        found: found.as_ref().map(found_json),
    });
    worker_emit_done();
    EXIT_OK
}

fn add_u64(m: &mut BTreeMap<String, u64>, v: Option<&Value>) {
    if let Some(Value::Object(o)) = v {
        for (k, x) in o {
            *m.entry(k.clone()).or_insert(0) += x.as_u64().unwrap_or(0);
        }
    }
}

pub fn main(cli: &Cli) -> i32 {
    init_server_globals();
    match cli.mode.as_deref() {
        Some("worker") => return worker(cli),
        Some("one") => return one(cli),
        Some("fresh1") => return fresh1(cli),
        Some("gen") => {
            // print the generated history of run --from (debugging aid)
            let (_, max_events, seed_checks) = tier_params(cli.tier);
            let h = gen_history(cli.seed, cli.opt_u64("from").unwrap_or(0), max_events);
            println!(
                "{}",
                serde_json::to_string_pretty(&case_json(&h, seed_checks)).unwrap()
            );
            return EXIT_OK;
        }
        _ => {}
    }
    if let Some(p) = &cli.replay {
        return replay(cli, p);
    }
    let (def_runs, max_events, seed_checks) = tier_params(cli.tier);
    let n = cli.runs.unwrap_or(def_runs);
    let seed = cli.seed;
    let determinism = cli.mode.as_deref() == Some("determinism");
    let mut ev = Evidence::new(PROP, cli);

    let sup = supervise(cli, n, &[], 240);
    let mut batch = 0xcbf2_9ce4_8422_2325u64;
    for r in &sup.runs {
        batch = rng::fnv64_extend(batch, &r.k.to_le_bytes());
        batch = rng::fnv64_extend(batch, &r.digest.to_le_bytes());
    }
    for (k, how) in &sup.deaths {
        batch = rng::fnv64_extend(batch, &k.to_le_bytes());
        batch = rng::fnv64_extend(batch, how.as_bytes());
    }
    if determinism {
        println!(
            "DETERMINISM engine=lspsim runs={} deaths={} batch_hash={:016x}",
            sup.runs.len(),
            sup.deaths.len(),
            batch
        );
        return if sup.harness_errors.is_empty() {
            EXIT_OK
        } else {
            EXIT_HARNESS
        };
    }
    // aggregate
    let mut tot: BTreeMap<String, u64> = BTreeMap::new();
    let mut kinds = BTreeMap::new();
    let mut pos_kinds = BTreeMap::new();
    let mut faults = BTreeMap::new();
    let mut max_passes = 0u64;
    let mut max_lookups = 0u64;
    for s in &sup.stats {
        for key in [
            "runs",
            "events",
            "buffer_events",
            "requests",
            "fresh_servers",
            "fresh_processes",
            "comparisons",
            "nonnull_answers",
            "tokens_checked",
            "ranges_checked",
            "codegen_invocations",
        ] {
            *tot.entry(key.to_string()).or_insert(0) +=
                s.get(key).and_then(|x| x.as_u64()).unwrap_or(0);
        }
        max_passes = max_passes.max(s.get("max_passes").and_then(|x| x.as_u64()).unwrap_or(0));
        max_lookups = max_lookups.max(s.get("max_lookups").and_then(|x| x.as_u64()).unwrap_or(0));
        add_u64(&mut kinds, s.get("kinds"));
        add_u64(&mut pos_kinds, s.get("pos_kinds"));
        add_u64(&mut faults, s.get("faults"));
    }
    let traces: BTreeSet<u64> = sup
        .runs
        .iter()
        .filter(|r| r.found.is_none())
        .map(|r| r.trace)
        .collect();
    let nontrivial: BTreeSet<u64> = sup
        .runs
        .iter()
        .filter(|r| r.nontrivial)
        .map(|r| r.trace)
        .collect();
    // violations: first occurrence of each signature, minimised in child processes
    let mut sig_counts: BTreeMap<String, u64> = BTreeMap::new();
    let mut first: BTreeMap<String, (u64, Found)> = BTreeMap::new();
    for r in &sup.runs {
        if let Some(f) = r.found.as_ref().and_then(found_from_json) {
            *sig_counts.entry(f.sig.clone()).or_insert(0) += 1;
            first.entry(f.sig.clone()).or_insert((r.k, f));
        }
    }
    for (k, how) in &sup.deaths {
        let h = gen_history(seed, *k, max_events);
        let f = Found {
            class: "process_death".into(),
            sig: format!("process_death:{}", how),
            message: format!(
                "the server process died ({}) while executing the history",
                how
            ),
            at_event: h.events.len().saturating_sub(1),
        };
        *sig_counts.entry(f.sig.clone()).or_insert(0) += 1;
        first.entry(f.sig.clone()).or_insert((*k, f));
    }
    let known = KnownFindings::load();
    let mut violations = vec![];
    let todo: Vec<(String, (u64, Found))> = first.into_iter().collect();
    let minimised: Vec<Violation> = {
        let out = Mutex::new(vec![]);
        let idx = std::sync::atomic::AtomicUsize::new(0);
        std::thread::scope(|s| {
            for _ in 0..cli.workers.min(todo.len()).max(1) {
                s.spawn(|| loop {
                    let i = idx.fetch_add(1, std::sync::atomic::Ordering::Relaxed);
                    if i >= todo.len() {
                        break;
                    }
                    let (sig, (k, f)) = &todo[i];
                    let h = gen_history(seed, *k, max_events);
                    // known findings are not minimised (nothing is reported for them)
                    let (mh, mf) = if known.lookup(PROP, sig).is_some() {
                        (h.clone(), f.clone())
                    } else {
                        minimise(cli, &h, f, seed_checks)
                    };
                    let mut replay = case_json(&mh, seed_checks);
                    if let Value::Object(m) = &mut replay {
                        m.insert("seed".into(), json!(format!("{:#x}", seed)));
                        m.insert("run".into(), json!(k));
                        m.insert("original_events".into(), json!(h.events.len()));
                    }
                    out.lock().unwrap().push(Violation {
                        property: PROP,
                        class: mf.class.clone(),
                        sig: mf.sig.clone(),
                        message: format!(
                            "C14 run {} ({} events, minimised to {}): {}",
                            k,
                            h.events.len(),
                            mh.events.len(),
                            mf.message
                        ),
                        run_index: *k,
                        replay,
                    });
                });
            }
        });
        out.into_inner().unwrap()
    };
    violations.extend(minimised);

    // samples: re-execute two clean runs in-process to write them out
    let mut samples = vec![];
    for r in sup
        .runs
        .iter()
        .filter(|r| r.found.is_none() && r.nontrivial)
        .take(2)
    {
        let h = gen_history(seed, r.k, max_events);
        if let Ok(Some(_)) | Err(_) = run_isolated(cli, &case_json(&h, seed_checks), 120) {
            continue;
        }
        let (_, st) = run_history(&h, seed_checks);
        samples.push(json!({"run": r.k, "history": h.to_json(), "event_log": st.log}));
    }
    if samples.is_empty() {
        samples.push(json!({"note": "no violation-free non-trivial run in this batch", "first_history": gen_history(seed, 0, max_events).to_json()}));
    }
    ev.evaluations = sup.runs.len() as u64 + sup.deaths.len() as u64;
    ev.distinct_nontrivial = nontrivial.len() as u64;
    ev.rule = format!(
        "{} seeded histories of <= {} events (didOpen/didChange with mutation, variant replacement and typing sequences through broken states, didClose with and without saving, disk changes before a buffer event, all 13 request kinds at positions derived from the current text, stale positions, out-of-range positions, files not open / not in the project) over a 3-file project on a simulated disk, executed in supervised worker processes; after EVERY event a fresh real server is started on the same disk, given didOpen for the current buffers, and compared (last published diagnostics per URI; for a request the canonicalised answer, asked of {} fresh servers with distinct hash keys). distinct = distinct hash of (event kinds, per-event publish digests, canonical answers); non-trivial = violation-free AND >= 2 buffer events AND the published-diagnostics digest changed >= 2 times AND >= 1 request came after a state with diagnostics",
        n, max_events, seed_checks
    );
    ev.samples = samples;
    for (k, v) in &tot {
        ev.set(k, json!(v));
    }
    ev.set("max_passes_of_any_analysis", json!(max_passes));
    ev.set("max_lookup_steps_in_one_pass", json!(max_lookups));
    ev.set("event_kinds", json!(kinds));
    ev.set("request_position_kinds", json!(pos_kinds));
    ev.set("fault_kinds_injected", json!(faults));
    ev.set("worker_process_deaths", json!(sup.deaths.len()));
    ev.set("distinct_histories_by_trace", json!(traces.len()));
    ev.set(
        "interleaving_measure",
        json!(
            "distinct hashes of (event-kind sequence, per-event publish digest, canonical answers)"
        ),
    );
    ev.set("violation_signatures_seen_in_batch", json!(sig_counts));
    ev.set("batch_hash", json!(format!("{:016x}", batch)));
    ev.set("simulated_time_ms", json!(0));
    ev.set("components", json!({
        "real": ["mos::lsp::LspServer::handle_message and all 13 request + 3 notification handlers", "LspContext::perform_codegen / publish_diagnostics", "LspParsingSource (buffers first, disk second)", "mos-core parser + codegen in analysis mode", "lsp-server message types, in-memory Connection", "lsp-types (de)serialisation"],
        "simulated": ["LSP client", "disk (fs-err shim)", "working directory", "OS entropy", "process boundary (worker processes; a handler panic is caught per message)"],
        "not_run": ["stdio transport and the real main loop (exercised under C20)", "initialize handshake per history (done once per process to initialise the semantic-token tables)"]
    }));
    ev.assumptions = vec![
        "a handler panic is observed through catch_unwind; in the shipped binary it ends the process (single-threaded message loop)".into(),
        "array order inside answers is ignored except for the semantic token stream (the protocol treats those arrays as sets)".into(),
        "disk faults are persistent states (missing, unreadable, invalid UTF-8, changed), applied only immediately before a buffer event".into(),
        "non-termination is decided on the pass loop's logical clock (periodic state digest after >= 2000 passes, or >= 10000 passes), never by wall clock".into(),
    ];
    let mut code = conclude(cli, &mut ev, violations);
    if !sup.harness_errors.is_empty() {
        for e in &sup.harness_errors {
            eprintln!("harness error: {}", e);
        }
        if code == EXIT_OK {
            code = EXIT_HARNESS;
        }
    }
    code
}
