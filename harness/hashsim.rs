//! hashsim (C10): N simulated fresh processes build the same project, each
//! with its own entropy seed (= its own `RandomState` keys = its own hash
//! iteration orders). The hash seed is the schedule. Oracle: identical result
//! kind, byte-identical output files, byte-identical diagnostic text.

use super::common::*;
use super::corpus::{self, Project, WS};
use crate::commands::build_command;
use crate::config::Config;
use crate::diagnostic_emitter::DiagnosticEmitter;
use codespan_reporting::term::DisplayStyle;
use mos_simrt::disk::{Fault, FaultKind, Op};
use mos_simrt::rng::{self, Rng};
use mos_simrt::{disk, entropy};
use serde_json::{json, Value};
use std::collections::{BTreeMap, BTreeSet, HashSet};
use std::path::Path;

const PROP: &str = "C10";

#[derive(Clone, Debug, PartialEq, Eq)]
pub struct Outcome {
    /// "ok" | "err" | "panic"
    pub status: String,
    pub files: BTreeMap<String, Vec<u8>>,
    pub diag: String,
    pub panic: String,
    pub canary: String,
    pub entropy_calls: u64,
    pub mono_reads: u64,
    pub clock_jumps: u64,
    pub poisoned: u64,
}

impl Outcome {
    pub fn digest(&self) -> u64 {
        let mut h = rng::fnv64(self.status.as_bytes());
        for (k, v) in &self.files {
            h = rng::fnv64_extend(h, k.as_bytes());
            h = rng::fnv64_extend(h, &[0]);
            h = rng::fnv64_extend(h, v);
            h = rng::fnv64_extend(h, &[1]);
        }
        h = rng::fnv64_extend(h, self.diag.as_bytes());
        h = rng::fnv64_extend(h, self.panic.as_bytes());
        h
    }
    fn to_json(&self) -> Value {
        let files: BTreeMap<String, String> = self
            .files
            .iter()
            .map(|(k, v)| {
                (
                    k.clone(),
                    format!("{} bytes fnv={:016x}", v.len(), rng::fnv64(v)),
                )
            })
            .collect();
        json!({"status": self.status, "files": files, "diagnostics": self.diag, "panic": self.panic, "canary_order": self.canary})
    }
}

impl Outcome {
    /// complete form (file contents as hex) for crossing a process boundary
    fn to_full_json(&self) -> Value {
        let files: BTreeMap<String, String> = self.files.iter().map(|(k, v)| (k.clone(), v.iter().map(|b| format!("{:02x}", b)).collect::<String>())).collect();
        json!({"status": self.status, "files": files, "diag": self.diag, "panic": self.panic, "canary": self.canary, "entropy_calls": self.entropy_calls, "mono_reads": self.mono_reads, "clock_jumps": self.clock_jumps, "poisoned": self.poisoned})
    }
    fn from_full_json(v: &Value) -> Option<Outcome> {
        let mut files = BTreeMap::new();
        for (k, x) in v.get("files")?.as_object()? {
            let h = x.as_str()?;
            let bytes: Option<Vec<u8>> = (0..h.len() / 2).map(|i| u8::from_str_radix(&h[2 * i..2 * i + 2], 16).ok()).collect();
            files.insert(k.clone(), bytes?);
        }
        Some(Outcome {
            status: v.get("status")?.as_str()?.to_string(),
            files,
            diag: v.get("diag")?.as_str()?.to_string(),
            panic: v.get("panic")?.as_str()?.to_string(),
            canary: v.get("canary")?.as_str()?.to_string(),
            entropy_calls: v.get("entropy_calls")?.as_u64()?,
            mono_reads: v.get("mono_reads").and_then(|x| x.as_u64()).unwrap_or(0),
            clock_jumps: v.get("clock_jumps").and_then(|x| x.as_u64()).unwrap_or(0),
            poisoned: v.get("poisoned").and_then(|x| x.as_u64()).unwrap_or(0),
        })
    }
}

// ---------------------------------------------------------------------------------------
// Simulated processes that are REAL processes. A thread with injected entropy models a fresh
// process for everything that is created per build; it does not for state that lives in the
// process itself (a lazily initialised static table built through a HashMap, for instance):
// all threads of one real process share it. So every project is also built once in each of two
// different real child processes, and a divergence found that way is confirmed, minimised and
// replayed with one real process per build.
// ---------------------------------------------------------------------------------------

fn case_json(p: &Project, faults: &[Fault], style: u64, seeds: &[u64]) -> Value {
    json!({
        "engine": "hashsim",
        "separate_processes": true,
        "style": style,
        "project": p.to_json(),
        "write_faults": faults_json(faults),
        "entropy_seeds": seeds.iter().map(|s| format!("{:#x}", s)).collect::<Vec<_>>(),
    })
}

/// One build in a real process of its own.
fn xbuild(cli: &Cli, p: &Project, faults: &[Fault], style: u64, seed: u64) -> Option<Outcome> {
    static N: std::sync::atomic::AtomicU64 = std::sync::atomic::AtomicU64::new(0);
    let dir = verif_root().join("target").join("cases");
    std::fs::create_dir_all(&dir).ok()?;
    let path = dir.join(format!("x-{}-{}.json", std::process::id(), N.fetch_add(1, std::sync::atomic::Ordering::SeqCst)));
    write_json(&path, &case_json(p, faults, style, &[seed])).ok()?;
    let out = std::process::Command::new(&cli.exe).arg("C10").arg("--mode").arg("xbuild").arg("--case").arg(&path).output().ok();
    let _ = std::fs::remove_file(&path);
    let out = out?;
    let text = String::from_utf8_lossy(&out.stdout);
    let v: Value = serde_json::from_str(text.trim()).ok()?;
    Outcome::from_full_json(&v)
}

/// Two builds of one project, each in a real process of its own: do they disagree?
fn xpair(cli: &Cli, p: &Project, faults: &[Fault], style: u64, sa: u64, sb: u64) -> Option<(String, String, String, Outcome, Outcome)> {
    let a = xbuild(cli, p, faults, style, sa)?;
    let b = xbuild(cli, p, faults, style, sb)?;
    classify(&a, &b).map(|(c, s, m)| (c, s, m, a, b))
}

fn xminimise(cli: &Cli, p: &Project, faults: &[Fault], style: u64, sa: u64, sb: u64, class: &str) -> Project {
    let still = |q: &Project| matches!(xpair(cli, q, faults, style, sa, sb), Some((c, _, _, _, _)) if c == class);
    let mut cur = p.clone();
    let names: Vec<String> = cur.files.keys().cloned().collect();
    for n in names {
        if n == "main.asm" || cur.toml.contains(&format!("\"{}\"", n)) {
            continue;
        }
        let mut cand = cur.clone();
        cand.files.remove(&n);
        if still(&cand) {
            cur = cand;
        }
    }
    let names: Vec<String> = cur.files.keys().cloned().collect();
    for n in names {
        let text = match String::from_utf8(cur.files[&n].clone()) {
            Ok(t) => t,
            Err(_) => continue,
        };
        let lines: Vec<String> = text.lines().map(|l| l.to_string()).collect();
        if lines.len() < 2 {
            continue;
        }
        let base = cur.clone();
        let kept = ddmin(lines, &mut |ls: &[String]| {
            let mut cand = base.clone();
            cand.files.insert(n.clone(), (ls.join("\n") + "\n").into_bytes());
            still(&cand)
        });
        let mut cand = cur.clone();
        cand.files.insert(n.clone(), (kept.join("\n") + "\n").into_bytes());
        if still(&cand) {
            cur = cand;
        }
    }
    cur.label = format!("{} (minimised)", p.label);
    cur
}

fn style_of(n: u64) -> DisplayStyle {
    match n % 3 {
        0 => DisplayStyle::Rich,
        1 => DisplayStyle::Medium,
        _ => DisplayStyle::Short,
    }
}

/// One simulated fresh process: the real `build_command` against the simulated
/// disk under the given entropy seed.
pub fn run_build(project: &Project, faults: &[Fault], entropy_seed: u64, style: u64) -> Outcome {
    run_build_on(project, faults, entropy_seed, style, None)
}

/// The disk is what survives a process. "Building the same project repeatedly" mostly means building it again in the
/// directory the previous build left behind: the next simulated process finds every output of the first one already
/// there - here each with 48 further bytes at its end, as a longer output of an earlier version of the project would
/// leave them. Whatever the second build leaves must equal what the first one left in an empty target directory.
pub fn run_rebuild(project: &Project, faults: &[Fault], entropy_seed: u64, style: u64, first: &Outcome) -> Outcome {
    let mut stale = BTreeMap::new();
    for (k, v) in &first.files {
        let mut b = v.clone();
        b.extend_from_slice(&[0xAAu8; 48]);
        stale.insert(k.clone(), b);
    }
    run_build_on(project, faults, entropy_seed, style, Some(stale))
}

/// A pair of builds to compare: two fresh processes under two entropy seeds, or (equal seeds) a build and a second
/// build on what the first one left behind.
pub fn run_pair(project: &Project, faults: &[Fault], sa: u64, sb: u64, style: u64) -> (Outcome, Outcome) {
    let a = run_build(project, faults, sa, style);
    let b = if sa == sb { run_rebuild(project, faults, sb, style, &a) } else { run_build(project, faults, sb, style) };
    (a, b)
}

fn run_build_on(project: &Project, faults: &[Fault], entropy_seed: u64, style: u64, stale: Option<BTreeMap<String, Vec<u8>>>) -> Outcome {
    let project = project.clone();
    let faults = faults.to_vec();
    let res = fresh_thread(16 << 20, move || {
        entropy::set_seed(Some(entropy_seed));
        let o = build_here(&project, &faults, style, stale.as_ref());
        entropy::set_seed(None);
        o
    });
    match res {
        Ok(o) => o,
        Err(p) => Outcome {
            status: "panic".into(),
            files: BTreeMap::new(),
            diag: String::new(),
            panic: p
                .first()
                .map(|p| format!("{} at {}", p.message, p.location))
                .unwrap_or_default(),
            canary: String::new(),
            entropy_calls: 0,
            mono_reads: 0,
            clock_jumps: 0,
            poisoned: 0,
        },
    }
}

/// The build itself, in the simulated process the caller has set up (entropy seed, and in the thread flavour the
/// scheduler): installs the project's disk, runs the real `build_command`, takes the disk away again.
fn build_here(project: &Project, faults: &[Fault], style: u64, stale: Option<&BTreeMap<String, Vec<u8>>>) -> Outcome {
    {
        let mut d0 = project.disk();
        d0.faults = faults.to_vec();
        disk::install(d0);
        let initial: BTreeSet<_> = disk::with(|d| d.files.keys().cloned().collect()).unwrap();
        // what an earlier build left behind (not part of `initial`: it is reported with the outputs)
        if let Some(st) = stale {
            disk::with(|d| {
                for (k, v) in st {
                    if let Some(dir) = Path::new(k).parent() {
                        let _ = d.create_dir_all(dir);
                    }
                    if !d.files.contains_key(Path::new(k)) {
                        d.add_file(k, v.clone());
                    }
                }
                d.log.clear();
            });
        }
        let r = std::panic::catch_unwind(std::panic::AssertUnwindSafe(|| {
            let cfg = if project.toml.is_empty() {
                Ok(Config::default())
            } else {
                Config::from_toml(&project.toml)
            };
            match cfg {
                Ok(cfg) => build_command(Path::new(WS), &cfg),
                Err(e) => Err(e),
            }
        }));
        let (status, diag, panic) = match r {
            Ok(Ok(())) => ("ok".to_string(), String::new(), String::new()),
            Ok(Err(e)) => {
                let (mut em, buf) = DiagnosticEmitter::buffered(style_of(style));
                em.emit(e);
                drop(em);
                let b = buf.lock().unwrap().clone();
                (
                    "err".to_string(),
                    String::from_utf8_lossy(&b).to_string(),
                    String::new(),
                )
            }
            Err(_) => {
                let p = mos_simrt::panics::peek();
                let s = p
                    .first()
                    .map(|p| format!("{} at {}", p.message, p.location))
                    .unwrap_or_default();
                ("panic".to_string(), String::new(), s)
            }
        };
        let d = disk::uninstall().unwrap();
        let mut files = BTreeMap::new();
        for (p, bytes) in &d.files {
            if d.written.contains(p) || !initial.contains(p) {
                files.insert(p.to_string_lossy().to_string(), bytes.clone());
            }
        }
        // canary: iteration order of a set created under this process's keys
        let mut canary: HashSet<&'static str> = HashSet::new();
        for s in ["a", "b", "c", "d", "e", "f", "g", "h"] {
            canary.insert(s);
        }
        let canary: String = canary.into_iter().collect();
        let calls = entropy::calls();
        let (mono_reads, clock_jumps) = (entropy::monotonic_reads(), entropy::clock_jumps());
        let poisoned = entropy::poisoned_bytes();
        Outcome {
            status,
            files,
            diag,
            panic,
            canary,
            entropy_calls: calls,
            mono_reads,
            clock_jumps,
            poisoned,
        }
    }
}

/// Thread flavour only: one build as one shuttle execution. Every thread the build starts is a task of the
/// simulator, `sched_seed` decides who runs when. Returns the outcome and (tasks seen, context switches).
#[cfg(mos_verif_threads)]
pub fn run_build_scheduled(project: &Project, faults: &[Fault], entropy_seed: u64, style: u64, sched_seed: u64) -> (Outcome, u64, u64) {
    use super::threadsim::{run_execution, ExecKnobs};
    let (p2, f2) = (project.clone(), faults.to_vec());
    let knobs = ExecKnobs { max_steps: 2_000_000, ..ExecKnobs::default() };
    let out = run_execution(sched_seed, entropy_seed, mos_simrt::disk::SimDisk::new(), &knobs, move |slot| {
        let o = build_here(&p2, &f2, style, None);
        *slot.lock().unwrap() = Some(o);
    });
    let (tasks, switches) = (out.sched.tasks_seen as u64, out.sched.context_switches);
    let o = match (out.result, out.panic) {
        (Some(o), None) => o,
        (_, p) => Outcome {
            status: "panic".into(),
            files: BTreeMap::new(),
            diag: String::new(),
            panic: p.map(|p| format!("{} at {}", p.message, p.location)).unwrap_or_default(),
            canary: String::new(),
            entropy_calls: 0,
            mono_reads: 0,
            clock_jumps: 0,
            poisoned: 0,
        },
    };
    (o, tasks, switches)
}

fn threads_exe() -> std::path::PathBuf {
    verif_root().join("target").join("threads").join("release").join("simctl")
}

fn sched_seed_for(seed: u64, k: u64, j: u64) -> u64 {
    rng::derive(rng::derive(seed, "hashsim.sched", k), "j", j)
}

/// One build in a process of the thread flavour, under one schedule.
fn tbuild(p: &Project, faults: &[Fault], style: u64, entropy_seed: u64, sched_seed: u64) -> Option<Outcome> {
    static N: std::sync::atomic::AtomicU64 = std::sync::atomic::AtomicU64::new(0);
    let dir = verif_root().join("target").join("cases");
    std::fs::create_dir_all(&dir).ok()?;
    let path = dir.join(format!("t-{}-{}.json", std::process::id(), N.fetch_add(1, std::sync::atomic::Ordering::SeqCst)));
    let mut c = case_json(p, faults, style, &[entropy_seed]);
    c["sched_seeds"] = json!([format!("{:#x}", sched_seed)]);
    write_json(&path, &c).ok()?;
    let out = std::process::Command::new(threads_exe()).arg("C10").arg("--mode").arg("tbuild").arg("--case").arg(&path).output().ok();
    let _ = std::fs::remove_file(&path);
    let out = out?;
    let text = String::from_utf8_lossy(&out.stdout);
    let v: Value = serde_json::from_str(text.trim()).ok()?;
    Outcome::from_full_json(&v)
}

fn tpair(p: &Project, faults: &[Fault], style: u64, es: u64, sa: u64, sb: u64) -> Option<(String, String, String, Outcome, Outcome)> {
    let a = tbuild(p, faults, style, es, sa)?;
    let b = tbuild(p, faults, style, es, sb)?;
    classify(&a, &b).map(|(c, s, m)| (c, s, m, a, b))
}

fn strip_idents(msg: &str) -> String {
    // keep the message template, drop what follows the first ':' after "error"
    let m = msg.trim();
    let m = m.rsplit("error: ").next().unwrap_or(m);
    let m = m.split(':').next().unwrap_or(m);
    let m = m.split('\'').next().unwrap_or(m);
    let m = m.split('"').next().unwrap_or(m);
    m.trim().replace(' ', "_")
}

/// Classify the difference between two outcomes of the same project.
pub fn classify(a: &Outcome, b: &Outcome) -> Option<(String, String, String)> {
    if a.digest() == b.digest() && a == b {
        return None;
    }
    if a.status != b.status {
        return Some((
            "result_kind".into(),
            format!(
                "result_kind:{}_vs_{}",
                a.status.clone().min(b.status.clone()),
                a.status.clone().max(b.status.clone())
            ),
            format!("result kind differs: {} vs {}", a.status, b.status),
        ));
    }
    if a.files != b.files {
        let mut names = BTreeSet::new();
        for k in a.files.keys().chain(b.files.keys()) {
            if a.files.get(k) != b.files.get(k) {
                names.insert(k.clone());
            }
        }
        let exts: BTreeSet<String> = names
            .iter()
            .map(|n| n.rsplit('.').next().unwrap_or("").to_string())
            .collect();
        let exts: Vec<String> = exts.into_iter().collect();
        return Some((
            "output_files".into(),
            format!("output_files:{}", exts.join("+")),
            format!("output files differ: {:?}", names),
        ));
    }
    if a.diag != b.diag {
        let mut la: Vec<&str> = a.diag.lines().collect();
        let mut lb: Vec<&str> = b.diag.lines().collect();
        let templates: BTreeSet<String> = a
            .diag
            .lines()
            .zip(b.diag.lines())
            .filter(|(x, y)| x != y)
            .flat_map(|(x, y)| vec![x, y])
            .filter(|l| l.contains("error"))
            .map(strip_idents)
            .collect();
        la.sort();
        lb.sort();
        let class = if la == lb {
            "diagnostics_order"
        } else {
            "diagnostics_content"
        };
        let t: Vec<String> = templates.into_iter().take(3).collect();
        return Some((
            class.into(),
            format!("{}:{}", class, t.join("+")),
            format!("diagnostic text differs between two simulated processes (hash keys, process id, time of day, monotonic clock with a jump) ({})", class),
        ));
    }
    if a.panic != b.panic {
        return Some((
            "panic_message".into(),
            "panic_message".into(),
            format!("panic differs: {} vs {}", a.panic, b.panic),
        ));
    }
    None
}

pub fn project_for(seed: u64, k: u64) -> Project {
    let ex = corpus::example_projects();
    if (k as usize) < ex.len() {
        return ex[k as usize].clone();
    }
    let mut r = Rng::new(rng::derive(seed, "hashsim.project", k));
    corpus::gen_hash_project(&mut r, k)
}

/// Output-side fault plan of a project (the same plan for all of its simulated processes):
/// the build must behave identically under every hash seed also when writing fails.
pub fn fault_plan_for(seed: u64, k: u64, p: &Project) -> Vec<Fault> {
    let mut r = Rng::new(rng::derive(seed, "hashsim.faults", k));
    if !r.chance(1, 4) {
        return vec![];
    }
    let mut targets: Vec<String> = vec![
        "target/main.prg".into(),
        "target/main.bin".into(),
        "target/main.lst".into(),
        "target/main.vs".into(),
        "target/lib0.lst".into(),
    ];
    for f in p.files.values() {
        if let Ok(t) = std::str::from_utf8(f) {
            for l in t.lines() {
                if let Some(i) = l.find("filename = \"") {
                    let rest = &l[i + 12..];
                    if let Some(j) = rest.find('"') {
                        targets.push(format!("target/{}", &rest[..j]));
                    }
                }
            }
        }
    }
    let n = r.range(1, 2);
    let mut out = vec![];
    for _ in 0..n {
        let t = r.pick(&targets).clone();
        let path = mos_simrt::disk::normalize(&Path::new(WS).join(&t));
        if out.iter().any(|f: &Fault| f.path == path) {
            continue;
        }
        out.push(Fault {
            path,
            nth: 0,
            op: Op::Write,
            kind: if r.chance(1, 2) {
                FaultKind::NoSpace
            } else {
                FaultKind::PermissionDenied
            },
        });
    }
    out
}

fn faults_json(f: &[Fault]) -> Value {
    Value::Array(
        f.iter()
            .map(|f| json!({"path": f.path.to_string_lossy(), "kind": f.kind.name()}))
            .collect(),
    )
}

fn faults_from_json(v: Option<&Value>) -> Vec<Fault> {
    v.and_then(|v| v.as_array())
        .map(|a| {
            a.iter()
                .filter_map(|f| {
                    Some(Fault {
                        path: std::path::PathBuf::from(f.get("path")?.as_str()?),
                        nth: 0,
                        op: Op::Write,
                        kind: if f.get("kind")?.as_str()? == "enospc" {
                            FaultKind::NoSpace
                        } else {
                            FaultKind::PermissionDenied
                        },
                    })
                })
                .collect()
        })
        .unwrap_or_default()
}

pub fn entropy_seed_for(seed: u64, k: u64, j: u64) -> u64 {
    rng::derive(
        seed,
        "hashsim.entropy",
        k.wrapping_mul(1_000_003).wrapping_add(j),
    )
}

struct CheckResult {
    outcomes: Vec<(u64, Outcome)>,
    /// (seed_a, seed_b, class, sig, message)
    divergence: Option<(u64, u64, String, String, String)>,
}

fn check_project(p: &Project, faults: &[Fault], seeds: &[u64], style: u64) -> CheckResult {
    let mut outcomes: Vec<(u64, Outcome)> = vec![];
    let mut divergence = None;
    for s in seeds {
        let o = run_build(p, faults, *s, style);
        if divergence.is_none() {
            if let Some((s0, o0)) = outcomes.first() {
                if let Some((class, sig, msg)) = classify(o0, &o) {
                    divergence = Some((*s0, *s, class, sig, msg));
                }
            }
        }
        outcomes.push((*s, o));
    }
    // the same project built again where the first build left its outputs (equal seeds = "rebuild", see run_pair)
    if divergence.is_none() && faults.is_empty() {
        if let Some((s0, o0)) = outcomes.first() {
            let o = run_rebuild(p, faults, *s0, style, o0);
            if let Some((class, sig, msg)) = classify(o0, &o) {
                divergence = Some((*s0, *s0, class, format!("r:{}", sig), format!("second build in the directory the first one left behind: {}", msg)));
            }
        }
    }
    CheckResult {
        outcomes,
        divergence,
    }
}

/// Shrink the project while some pair of the given entropy seeds still
/// disagrees with the same violation class.
fn minimise(
    p: &Project,
    faults: &[Fault],
    seeds: &[u64],
    style: u64,
    class: &str,
) -> (Project, u64, u64) {
    let seeds: Vec<u64> = seeds.iter().take(8).cloned().collect();
    let still = |q: &Project| -> Option<(u64, u64)> {
        let r = check_project(q, faults, &seeds, style);
        match r.divergence {
            Some((a, b, c, _, _)) if c == class => Some((a, b)),
            _ => None,
        }
    };
    let mut cur = p.clone();
    let mut pair = still(&cur).unwrap_or((seeds[0], seeds[1 % seeds.len()]));
    // 1. drop whole files (not the entry)
    let names: Vec<String> = cur.files.keys().cloned().collect();
    for n in names {
        if n == "main.asm" || cur.toml.contains(&format!("\"{}\"", n)) {
            continue;
        }
        let mut cand = cur.clone();
        cand.files.remove(&n);
        if let Some(pr) = still(&cand) {
            cur = cand;
            pair = pr;
        }
    }
    // 2. drop lines per file (ddmin)
    let names: Vec<String> = cur.files.keys().cloned().collect();
    for n in names {
        let text = match String::from_utf8(cur.files[&n].clone()) {
            Ok(t) => t,
            Err(_) => continue,
        };
        let lines: Vec<String> = text.lines().map(|l| l.to_string()).collect();
        if lines.len() < 2 {
            continue;
        }
        let base = cur.clone();
        let mut last_pair = pair;
        let kept = ddmin(lines, &mut |ls: &[String]| {
            let mut cand = base.clone();
            cand.files
                .insert(n.clone(), (ls.join("\n") + "\n").into_bytes());
            match still(&cand) {
                Some(pr) => {
                    last_pair = pr;
                    true
                }
                None => false,
            }
        });
        cur.files
            .insert(n.clone(), (kept.join("\n") + "\n").into_bytes());
        if let Some(pr) = still(&cur) {
            pair = pr;
        } else {
            // ddmin result must still fail; if not (cannot happen with a
            // deterministic test) fall back to the unreduced file
            cur = base;
        }
        let _ = last_pair;
    }
    // 3. simplify toml
    for t in ["[build]\nentry = \"main.asm\"\n", ""] {
        let mut cand = cur.clone();
        cand.toml = t.to_string();
        if let Some(pr) = still(&cand) {
            cur = cand;
            pair = pr;
            break;
        }
    }
    cur.label = format!("{} (minimised)", p.label);
    (cur, pair.0, pair.1)
}

fn replay(cli: &Cli, path: &Path) -> i32 {
    let v = match read_json(path) {
        Ok(v) => v,
        Err(e) => {
            eprintln!("harness error: {}", e);
            return EXIT_HARNESS;
        }
    };
    let project = match v.get("project").and_then(Project::from_json) {
        Some(p) => p,
        None => {
            eprintln!("harness error: replay file has no project");
            return EXIT_HARNESS;
        }
    };
    let seeds: Vec<u64> = v
        .get("entropy_seeds")
        .and_then(|s| s.as_array())
        .map(|a| {
            a.iter()
                .filter_map(|x| x.as_str().and_then(parse_u64).or(x.as_u64()))
                .collect()
        })
        .unwrap_or_default();
    let style = v.get("style").and_then(|s| s.as_u64()).unwrap_or(0);
    if seeds.len() < 2 {
        eprintln!("harness error: replay file needs two entropy seeds");
        return EXIT_HARNESS;
    }
    let faults = faults_from_json(v.get("write_faults"));
    let separate = v.get("separate_processes").and_then(|b| b.as_bool()).unwrap_or(false);
    let sched_seeds: Vec<u64> = v
        .get("sched_seeds")
        .and_then(|s| s.as_array())
        .map(|a| a.iter().filter_map(|x| x.as_str().and_then(parse_u64)).collect())
        .unwrap_or_default();
    let scheduled = sched_seeds.len() == 2;
    let (a, b) = if scheduled {
        match (tbuild(&project, &faults, style, seeds[0], sched_seeds[0]), tbuild(&project, &faults, style, seeds[0], sched_seeds[1])) {
            (Some(a), Some(b)) => (a, b),
            _ => {
                eprintln!("harness error: a thread-flavour child process of the replay did not deliver its outcome (is target/threads built? ./check --setup)");
                return EXIT_HARNESS;
            }
        }
    } else if separate {
        match (xbuild(cli, &project, &faults, style, seeds[0]), xbuild(cli, &project, &faults, style, seeds[1])) {
            (Some(a), Some(b)) => (a, b),
            _ => {
                eprintln!("harness error: a child process of the replay did not deliver its outcome");
                return EXIT_HARNESS;
            }
        }
    } else {
        run_pair(&project, &faults, seeds[0], seeds[1], style)
    };
    let rebuild = !scheduled && !separate && seeds[0] == seeds[1];
    let mut log = rng::fnv64(&a.digest().to_le_bytes());
    log = rng::fnv64_extend(log, &b.digest().to_le_bytes());
    let r = match classify(&a, &b) {
        Some((class, sig, msg)) => ReplayResult {
            violated: true,
            sig: if scheduled { format!("t:{}", sig) } else if separate { format!("x:{}", sig) } else if rebuild { format!("r:{}", sig) } else { sig },
            class,
            message: format!(
                "{}\n--- entropy seed {:#x}: status={} ---\n{}{}\n--- entropy seed {:#x}: status={} ---\n{}{}",
                msg,
                seeds[0],
                a.status,
                a.diag,
                a.files.iter().map(|(k, v)| format!("{} {}B {:016x}\n", k, v.len(), rng::fnv64(v))).collect::<String>(),
                seeds[1],
                b.status,
                b.diag,
                b.files.iter().map(|(k, v)| format!("{} {}B {:016x}\n", k, v.len(), rng::fnv64(v))).collect::<String>(),
            ),
            log_hash: log,
        },
        None => ReplayResult {
            violated: false,
            sig: "-".into(),
            class: "-".into(),
            message: "both simulated processes produced identical results".into(),
            log_hash: log,
        },
    };
    if cli.opts.contains_key("dump") {
        for (s, o) in [(seeds[0], &a), (seeds[1], &b)] {
            for (k, v) in &o.files {
                println!(
                    "##### seed {:#x} file {}\n{}",
                    s,
                    k,
                    String::from_utf8_lossy(v)
                );
            }
        }
    }
    print_replay_result(PROP, &r)
}

#[derive(Default)]
struct Acc {
    poisoned: u64,
    mono_reads: u64,
    clock_jumps: u64,
    builds: u64,
    projects: u64,
    nontrivial: BTreeSet<u64>,
    canaries: BTreeSet<String>,
    status_counts: BTreeMap<String, u64>,
    kinds: BTreeMap<String, u64>,
    violations: Vec<Violation>,
    digests: Vec<(u64, u64)>,
    samples: Vec<(u64, Value)>,
    panics_all_seeds: BTreeMap<String, u64>,
    entropy_calls: u64,
    projects_with_write_faults: u64,
    write_faults_fired: u64,
}

pub fn main(cli: &Cli) -> i32 {
    if let Some(p) = &cli.replay {
        return replay(cli, p);
    }
    let (def_projects, n_seeds) = match cli.tier {
        Tier::Quick => (600u64, 8u64),
        Tier::Thorough => (20_000u64, 64u64),
    };
    let n_projects = cli.runs.unwrap_or(def_projects);
    let n_seeds = cli.opt_u64("hash-seeds").unwrap_or(n_seeds).max(2);
    let seed = cli.seed;
    let determinism = cli.mode.as_deref() == Some("determinism");
    if cli.mode.as_deref() == Some("gen") {
        // debugging aid: print project --from and its outcome under the first entropy seed
        let k = cli.opt_u64("from").unwrap_or(0);
        let p = project_for(seed, k);
        let faults = fault_plan_for(seed, k, &p);
        let o = run_build(
            &p,
            &faults,
            entropy_seed_for(seed, k, 0),
            rng::derive(seed, "hashsim.style", k),
        );
        println!("{}", serde_json::to_string_pretty(&json!({"project": p.to_json(), "write_faults": faults_json(&faults), "outcome": o.to_json()})).unwrap());
        return EXIT_OK;
    }
    if cli.mode.as_deref() == Some("xbuild") {
        // child: one build, the complete outcome on stdout
        let v = match cli.opts.get("case").and_then(|p| read_json(Path::new(p)).ok()) {
            Some(v) => v,
            None => return EXIT_HARNESS,
        };
        let project = match v.get("project").and_then(Project::from_json) {
            Some(p) => p,
            None => return EXIT_HARNESS,
        };
        let s0 = v.get("entropy_seeds").and_then(|s| s.as_array()).and_then(|a| a.first()).and_then(|x| x.as_str().and_then(parse_u64));
        let s0 = match s0 {
            Some(s) => s,
            None => return EXIT_HARNESS,
        };
        let o = run_build(&project, &faults_from_json(v.get("write_faults")), s0, v.get("style").and_then(|s| s.as_u64()).unwrap_or(0));
        println!("{}", o.to_full_json());
        return EXIT_OK;
    }
    if cli.mode.as_deref() == Some("tbuild") || cli.mode.as_deref() == Some("tdigests") {
        #[cfg(not(mos_verif_threads))]
        {
            eprintln!("harness error: mode {:?} needs the thread flavour of simctl", cli.mode);
            return EXIT_HARNESS;
        }
        #[cfg(mos_verif_threads)]
        {
            if cli.mode.as_deref() == Some("tbuild") {
                let v = match cli.opts.get("case").and_then(|p| read_json(Path::new(p)).ok()) {
                    Some(v) => v,
                    None => return EXIT_HARNESS,
                };
                let project = match v.get("project").and_then(Project::from_json) {
                    Some(p) => p,
                    None => return EXIT_HARNESS,
                };
                let first = |k: &str| v.get(k).and_then(|s| s.as_array()).and_then(|a| a.first()).and_then(|x| x.as_str().and_then(parse_u64));
                let (es, ss) = match (first("entropy_seeds"), first("sched_seeds")) {
                    (Some(a), Some(b)) => (a, b),
                    _ => return EXIT_HARNESS,
                };
                let _quiet = super::threadsim::StderrSilencer::new();
                let (o, _, _) = run_build_scheduled(&project, &faults_from_json(v.get("write_faults")), es, v.get("style").and_then(|s| s.as_u64()).unwrap_or(0), ss);
                println!("{}", o.to_full_json());
                return EXIT_OK;
            }
            // tdigests: projects --from..--to, each under --scheds schedules (and the entropy seed number 0)
            let (a, b, n) = (cli.opt_u64("from").unwrap_or(0), cli.opt_u64("to").unwrap_or(0), cli.opt_u64("scheds").unwrap_or(3));
            let _quiet = super::threadsim::StderrSilencer::new();
            for k in a..b {
                let p = project_for(seed, k);
                let faults = fault_plan_for(seed, k, &p);
                for j in 0..n {
                    let (o, tasks, switches) = run_build_scheduled(&p, &faults, entropy_seed_for(seed, k, 0), rng::derive(seed, "hashsim.style", k), sched_seed_for(seed, k, j));
                    println!("T {} {} {:016x} {} {}", k, j, o.digest(), tasks, switches);
                }
            }
            return EXIT_OK;
        }
    }
    if cli.mode.as_deref() == Some("xdigests") {
        // child: projects --from..--to, one after the other, each under its entropy seed number --jidx
        let (a, b, j) = (cli.opt_u64("from").unwrap_or(0), cli.opt_u64("to").unwrap_or(0), cli.opt_u64("jidx").unwrap_or(0));
        for k in a..b {
            let p = project_for(seed, k);
            let o = run_build(&p, &fault_plan_for(seed, k, &p), entropy_seed_for(seed, k, j), rng::derive(seed, "hashsim.style", k));
            println!("X {} {:016x}", k, o.digest());
        }
        return EXIT_OK;
    }
    let mut ev = Evidence::new(PROP, cli);

    let (acc, _done) = par_fold(
        n_projects,
        cli.workers,
        None,
        Acc::default,
        |acc: &mut Acc, k: u64| {
            let p = project_for(seed, k);
            let seeds: Vec<u64> = (0..n_seeds).map(|j| entropy_seed_for(seed, k, j)).collect();
            let style = rng::derive(seed, "hashsim.style", k);
            let faults = fault_plan_for(seed, k, &p);
            if !faults.is_empty() {
                acc.projects_with_write_faults += 1;
            }
            let r = check_project(&p, &faults, &seeds, style);
            acc.projects += 1;
            acc.builds += r.outcomes.len() as u64;
            let kind = p.label.split(':').nth(1).unwrap_or("?").to_string();
            *acc.kinds.entry(kind).or_insert(0) += 1;
            let mut canaries = BTreeSet::new();
            let mut h = 0xcbf2_9ce4_8422_2325u64;
            for (_, o) in &r.outcomes {
                canaries.insert(o.canary.clone());
                *acc.status_counts.entry(o.status.clone()).or_insert(0) += 1;
                h = rng::fnv64_extend(h, &o.digest().to_le_bytes());
                acc.entropy_calls += o.entropy_calls;
                acc.mono_reads += o.mono_reads;
                acc.poisoned += o.poisoned;
                acc.clock_jumps += o.clock_jumps;
                if o.diag.contains("failed to create") {
                    acc.write_faults_fired += 1;
                }
            }
            acc.digests.push((k, h));
            let o0 = &r.outcomes[0].1;
            let touched = o0.files.len() + p.files.len();
            let ndiag = o0.diag.lines().filter(|l| l.contains("error")).count();
            if canaries.len() >= 2 && (touched >= 2 || ndiag >= 2) {
                let mut ph = rng::fnv64(p.toml.as_bytes());
                for (n, b) in &p.files {
                    ph = rng::fnv64_extend(ph, n.as_bytes());
                    ph = rng::fnv64_extend(ph, b);
                }
                acc.nontrivial.insert(ph);
            }
            acc.canaries.extend(canaries);
            if r.outcomes.iter().all(|(_, o)| o.status == "panic") {
                *acc.panics_all_seeds.entry(o0.panic.clone()).or_insert(0) += 1;
            }
            if acc.samples.len() < 2 || k < 2 {
                acc.samples.push((
                    k,
                    json!({"project_index": k, "project": p.to_json(), "entropy_seeds": seeds.iter().take(3).map(|s| format!("{:#x}", s)).collect::<Vec<_>>(), "outcome_first_seed": o0.to_json(), "all_seeds_identical": r.divergence.is_none()}),
                ));
            }
            if let Some((sa, sb, class, sig, msg)) = r.divergence {
                if determinism {
                    return;
                }
                // keep at most a few per worker; minimise now (deterministic)
                if acc.violations.iter().filter(|v| v.sig == sig).count() == 0 {
                    let (mp, ma, mb) = minimise(&p, &faults, &seeds, style, &class);
                    // recompute signature on the minimised project
                    let (a, b) = run_pair(&mp, &faults, ma, mb, style);
                    let (class2, sig2, msg2) = classify(&a, &b)
                        .map(|(c, s, m)| if ma == mb { (c, format!("r:{}", s), format!("second build in the directory the first one left behind: {}", m)) } else { (c, s, m) })
                        .unwrap_or((class.clone(), sig.clone(), msg.clone()));
                    acc.violations.push(Violation {
                        property: PROP,
                        class: class2,
                        sig: sig2,
                        message: format!(
                            "C10 divergence in project #{} ({}): {}; original seeds {:#x}/{:#x}",
                            k, p.label, msg2, sa, sb
                        ),
                        run_index: k,
                        replay: json!({
                            "engine": "hashsim",
                            "seed": format!("{:#x}", seed),
                            "project_index": k,
                            "style": style,
                            "project": mp.to_json(),
                            "write_faults": faults_json(&faults),
                            "entropy_seeds": [format!("{:#x}", ma), format!("{:#x}", mb)],
                            "original_project": p.to_json(),
                        }),
                    });
                }
            }
        },
        |t: &mut Acc, a: Acc| {
            t.builds += a.builds;
            t.projects += a.projects;
            t.nontrivial.extend(a.nontrivial);
            t.canaries.extend(a.canaries);
            for (k, v) in a.status_counts {
                *t.status_counts.entry(k).or_insert(0) += v;
            }
            for (k, v) in a.kinds {
                *t.kinds.entry(k).or_insert(0) += v;
            }
            for (k, v) in a.panics_all_seeds {
                *t.panics_all_seeds.entry(k).or_insert(0) += v;
            }
            t.violations.extend(a.violations);
            t.digests.extend(a.digests);
            t.samples.extend(a.samples);
            t.entropy_calls += a.entropy_calls;
            t.mono_reads += a.mono_reads;
            t.poisoned += a.poisoned;
            t.clock_jumps += a.clock_jumps;
            t.projects_with_write_faults += a.projects_with_write_faults;
            t.write_faults_fired += a.write_faults_fired;
        },
    );
    let mut acc = acc;
    // cross-process stage: every project once in each of two real child processes (seed numbers 0 and 1)
    let chunks = cli.workers.max(2) as u64 / 2;
    let per = (n_projects + chunks - 1) / chunks;
    let mut children = vec![];
    for c in 0..chunks {
        let (a, b) = (c * per, ((c + 1) * per).min(n_projects));
        if a >= b {
            continue;
        }
        for j in 0..2u64 {
            let child = std::process::Command::new(&cli.exe)
                .arg("C10")
                .arg("--mode")
                .arg("xdigests")
                .arg("--seed")
                .arg(seed.to_string())
                .arg("--from")
                .arg(a.to_string())
                .arg("--to")
                .arg(b.to_string())
                .arg("--jidx")
                .arg(j.to_string())
                .stdout(std::process::Stdio::piped())
                .stderr(std::process::Stdio::null())
                .spawn();
            children.push((j, child));
        }
    }
    let mut xd: BTreeMap<(u64, u64), u64> = BTreeMap::new();
    let mut child_failed = false;
    for (j, child) in children {
        match child.and_then(|c| c.wait_with_output()) {
            Ok(out) if out.status.success() => {
                for l in String::from_utf8_lossy(&out.stdout).lines() {
                    let w: Vec<&str> = l.split_whitespace().collect();
                    if w.len() == 3 && w[0] == "X" {
                        if let (Ok(k), Ok(d)) = (w[1].parse::<u64>(), u64::from_str_radix(w[2], 16)) {
                            xd.insert((k, j), d);
                        }
                    }
                }
            }
            _ => child_failed = true,
        }
    }
    let mut x_pairs = 0u64;
    let mut x_confirmed = 0u64;
    let mut x_unconfirmed = 0u64;
    for k in 0..n_projects {
        let (d0, d1) = match (xd.get(&(k, 0)), xd.get(&(k, 1))) {
            (Some(a), Some(b)) => (*a, *b),
            _ => {
                child_failed = true;
                continue;
            }
        };
        x_pairs += 1;
        acc.digests.push((1_000_000_000 + k, d0 ^ d1.rotate_left(17)));
        if d0 == d1 || determinism || acc.violations.iter().any(|v| v.run_index == k) {
            continue;
        }
        let p = project_for(seed, k);
        let faults = fault_plan_for(seed, k, &p);
        let style = rng::derive(seed, "hashsim.style", k);
        let (sa, sb) = (entropy_seed_for(seed, k, 0), entropy_seed_for(seed, k, 1));
        match xpair(cli, &p, &faults, style, sa, sb) {
            Some((class, sig, _, _, _)) => {
                x_confirmed += 1;
                let sig = format!("x:{}", sig);
                if acc.violations.iter().any(|v| v.sig == sig) {
                    continue;
                }
                let mp = xminimise(cli, &p, &faults, style, sa, sb, &class);
                let msg = xpair(cli, &mp, &faults, style, sa, sb).map(|x| x.2).unwrap_or_default();
                acc.violations.push(Violation {
                    property: PROP,
                    class,
                    sig,
                    message: format!("C10 divergence between two REAL processes in project #{} ({}): {}", k, p.label, msg),
                    run_index: k,
                    replay: {
                        let mut r = case_json(&mp, &faults, style, &[sa, sb]);
                        r["seed"] = json!(format!("{:#x}", seed));
                        r["project_index"] = json!(k);
                        r["original_project"] = p.to_json();
                        r
                    },
                });
            }
            None => x_unconfirmed += 1,
        }
    }
    if child_failed && !determinism {
        eprintln!("harness error: a child process of the cross-process stage failed");
        return EXIT_HARNESS;
    }
    // thread stage: every project built as shuttle executions of the thread flavour, under n_scheds schedules (same
    // entropy seed): whatever threads a build starts are tasks of the simulator, and the result must not depend on
    // who ran when
    let n_scheds: u64 = if matches!(cli.tier, Tier::Thorough) { 8 } else { 3 };
    let chunks = cli.workers.max(1) as u64;
    let per = (n_projects + chunks - 1) / chunks;
    let mut children = vec![];
    for c in 0..chunks {
        let (a, b) = (c * per, ((c + 1) * per).min(n_projects));
        if a >= b {
            continue;
        }
        children.push(
            std::process::Command::new(threads_exe())
                .arg("C10")
                .arg("--mode")
                .arg("tdigests")
                .arg("--seed")
                .arg(seed.to_string())
                .arg("--from")
                .arg(a.to_string())
                .arg("--to")
                .arg(b.to_string())
                .arg("--scheds")
                .arg(n_scheds.to_string())
                .stdout(std::process::Stdio::piped())
                .stderr(std::process::Stdio::null())
                .spawn(),
        );
    }
    let mut td: BTreeMap<(u64, u64), u64> = BTreeMap::new();
    let (mut t_execs, mut t_max_tasks, mut t_switches, mut t_multi) = (0u64, 0u64, 0u64, 0u64);
    let mut t_failed = false;
    for child in children {
        match child.and_then(|c| c.wait_with_output()) {
            Ok(out) if out.status.success() => {
                for l in String::from_utf8_lossy(&out.stdout).lines() {
                    let w: Vec<&str> = l.split_whitespace().collect();
                    if w.len() == 6 && w[0] == "T" {
                        if let (Ok(k), Ok(j), Ok(d), Ok(tasks), Ok(sw)) = (w[1].parse::<u64>(), w[2].parse::<u64>(), u64::from_str_radix(w[3], 16), w[4].parse::<u64>(), w[5].parse::<u64>()) {
                            td.insert((k, j), d);
                            t_execs += 1;
                            t_max_tasks = t_max_tasks.max(tasks);
                            t_switches += sw;
                            // (the root task and the clock daemon are always there)
                            if tasks > 2 {
                                t_multi += 1;
                            }
                        }
                    }
                }
            }
            _ => t_failed = true,
        }
    }
    let (mut t_confirmed, mut t_unconfirmed) = (0u64, 0u64);
    for k in 0..n_projects {
        let ds: Vec<u64> = (0..n_scheds).filter_map(|j| td.get(&(k, j)).cloned()).collect();
        if ds.len() as u64 != n_scheds {
            t_failed = true;
            continue;
        }
        let mut h = 0xcbf2_9ce4_8422_2325u64;
        for d in &ds {
            h = rng::fnv64_extend(h, &d.to_le_bytes());
        }
        acc.digests.push((2_000_000_000 + k, h));
        let other = match ds.iter().position(|d| *d != ds[0]) {
            Some(j) => j as u64,
            None => continue,
        };
        if determinism {
            continue;
        }
        let p = project_for(seed, k);
        let faults = fault_plan_for(seed, k, &p);
        let style = rng::derive(seed, "hashsim.style", k);
        let es = entropy_seed_for(seed, k, 0);
        let (sa, sb) = (sched_seed_for(seed, k, 0), sched_seed_for(seed, k, other));
        match tpair(&p, &faults, style, es, sa, sb) {
            Some((class, sig, msg, _, _)) => {
                t_confirmed += 1;
                let sig = format!("t:{}", sig);
                if acc.violations.iter().any(|v| v.sig == sig) {
                    continue;
                }
                // minimise: files, then lines, while the two schedules still disagree in the same way
                let still = |q: &Project| matches!(tpair(q, &faults, style, es, sa, sb), Some((c, _, _, _, _)) if c == class);
                let mut mp = p.clone();
                for n in mp.files.keys().cloned().collect::<Vec<_>>() {
                    if n == "main.asm" || mp.toml.contains(&format!("\"{}\"", n)) {
                        continue;
                    }
                    let mut cand = mp.clone();
                    cand.files.remove(&n);
                    if still(&cand) {
                        mp = cand;
                    }
                }
                for n in mp.files.keys().cloned().collect::<Vec<_>>() {
                    let text = match String::from_utf8(mp.files[&n].clone()) {
                        Ok(t) => t,
                        Err(_) => continue,
                    };
                    let lines: Vec<String> = text.lines().map(|l| l.to_string()).collect();
                    if lines.len() < 2 {
                        continue;
                    }
                    let base = mp.clone();
                    let kept = ddmin(lines, &mut |ls: &[String]| {
                        let mut cand = base.clone();
                        cand.files.insert(n.clone(), (ls.join("\n") + "\n").into_bytes());
                        still(&cand)
                    });
                    let mut cand = mp.clone();
                    cand.files.insert(n.clone(), (kept.join("\n") + "\n").into_bytes());
                    if still(&cand) {
                        mp = cand;
                    }
                }
                let msg = tpair(&mp, &faults, style, es, sa, sb).map(|x| x.2).unwrap_or(msg);
                acc.violations.push(Violation {
                    property: PROP,
                    class,
                    sig,
                    message: format!("C10 divergence between two SCHEDULES of the threads of one build (same process state otherwise) in project #{} ({}): {}", k, p.label, msg),
                    run_index: k,
                    replay: {
                        let mut r = case_json(&mp, &faults, style, &[es, es]);
                        r["separate_processes"] = json!(false);
                        r["sched_seeds"] = json!([format!("{:#x}", sa), format!("{:#x}", sb)]);
                        r["seed"] = json!(format!("{:#x}", seed));
                        r["project_index"] = json!(k);
                        r["original_project"] = p.to_json();
                        r
                    },
                });
            }
            None => t_unconfirmed += 1,
        }
    }
    if t_failed {
        eprintln!("harness error: a child process of the thread stage failed (is target/threads built? ./check --setup)");
        return EXIT_HARNESS;
    }
    acc.digests.sort();
    let mut batch = 0xcbf2_9ce4_8422_2325u64;
    for (k, h) in &acc.digests {
        batch = rng::fnv64_extend(batch, &k.to_le_bytes());
        batch = rng::fnv64_extend(batch, &h.to_le_bytes());
    }
    if determinism {
        println!(
            "DETERMINISM engine=hashsim runs={} batch_hash={:016x}",
            acc.projects, batch
        );
        return EXIT_OK;
    }
    acc.samples.sort_by_key(|(k, _)| *k);
    acc.samples.dedup_by_key(|(k, _)| *k);
    acc.samples.truncate(4);

    ev.evaluations = acc.builds;
    ev.distinct_nontrivial = acc.nontrivial.len() as u64;
    ev.rule = format!(
        "{} projects (4 repository examples + seeded generator aimed at hash-ordered state: multi-import, diamonds, repeated undefined names across files, several files with parse errors, missing files, banks/segments, macros) x {} simulated fresh processes each (one entropy seed = one set of RandomState keys, injected through the interposed getrandom); distinct = distinct project content hash; non-trivial = >= 2 distinct canary HashSet iteration orders reached across the seeds AND (>= 2 files involved OR >= 2 diagnostics)",
        acc.projects, n_seeds
    );
    ev.samples = acc.samples.iter().map(|(_, v)| v.clone()).collect();
    ev.set("projects", json!(acc.projects));
    ev.set("hash_seeds_per_project", json!(n_seeds));
    ev.set("distinct_hash_orders_reached", json!(acc.canaries.len()));
    ev.set("interleaving_measure", json!("distinct iteration orders of an 8-element canary HashSet created under each simulated process's keys"));
    ev.set("result_kinds", json!(acc.status_counts));
    ev.set("project_kinds", json!(acc.kinds));
    ev.set("fault_kinds_injected", json!({"hash_seed_change": acc.builds, "entropy_calls_served": acc.entropy_calls, "projects_with_output_write_faults (enospc/eacces on an output file, same plan for all seeds)": acc.projects_with_write_faults, "builds_that_failed_writing": acc.write_faults_fired, "monotonic_clock_reads_by_simulated_processes (one process in three has a 30 s jump planned at one of its first six reads)": acc.mono_reads, "clock_jumps_observed": acc.clock_jumps, "bytes_of_fresh_allocations_filled_with_the_process_pattern": acc.poisoned}));
    ev.set(
        "panics_under_all_seeds_not_judged_here",
        json!(acc.panics_all_seeds),
    );
    ev.set("batch_hash", json!(format!("{:016x}", batch)));
    ev.set("thread_stage", json!({"builds_as_shuttle_executions": t_execs, "schedules_per_project": n_scheds, "most_tasks_in_one_build (root + clock daemon = 2: the build started no thread)": t_max_tasks, "builds_that_started_threads": t_multi, "context_switches": t_switches, "divergences_confirmed": t_confirmed, "digest_differences_not_confirmed": t_unconfirmed}));
    ev.set("cross_process_stage", json!({"projects_built_in_two_real_processes": x_pairs, "divergences_confirmed_with_one_process_per_build": x_confirmed, "digest_differences_not_confirmed": x_unconfirmed}));
    ev.set("simulated_time_ms", json!(0));
    ev.set("components", json!({
        "real": ["mos::commands::build_command", "mos::config", "mos::diagnostic_emitter (buffered writer)", "mos-core parser/codegen/io (binary writer, listing, vice symbols)", "codespan-reporting", "std HashMap/HashSet with RandomState"],
        "simulated": ["OS entropy (getrandom interposed, per-thread seed)", "process id, time of day, monotonic clock with a jump (getpid / clock_gettime interposed)", "contents of fresh allocations (global allocator of the harness binary)", "disk (fs-err shim on an in-memory tree)", "process boundary (one fresh OS thread per simulated process; two real child processes per project; thread stage: one shuttle execution per build, std::thread/sync routed through the scheduler)"],
        "not_run": ["main() argument parsing and mos.toml discovery", "real stdout"]
    }));
    ev.assumptions = vec![
        "std's RandomState takes its keys from getrandom(2) once per OS thread; a fresh thread with an injected seed models a fresh process for hash iteration order (calibrated against real processes in DESIGN.md 2.9-8/9)".into(),
        "file contents are workload from a fixed generator family, not a searched space".into(),
    ];
    conclude(cli, &mut ev, acc.violations)
}
