//! Logical clock of the assembler's pass loop (seam: `verif_hooks::after_pass`
//! in mos-core's codegen). Verdicts are chosen so that an imperfect digest can
//! lose detection but never raise a false alarm (DESIGN.md C06):
//!  * periodic:  the digest sequence is periodic (period <= 16) AND the loop is
//!    still running after PERIODIC_MIN_PASSES passes;
//!  * divergent: the loop is still running after DIVERGENT_PASSES passes.
//! Either verdict stops the loop through the hook.

use mos_core::codegen::verif_hooks;
use std::cell::RefCell;
use std::rc::Rc;

pub const PERIODIC_MIN_PASSES: usize = 2_000;
pub const DIVERGENT_PASSES: usize = 10_000;

#[derive(Clone, Debug, Default)]
pub struct PassState {
    digests: Vec<u64>,
    pub invocations: u64,
    pub total_passes: u64,
    pub max_passes: usize,
    /// most tokens emitted in one completed pass
    pub max_work: u64,
    /// most parse attempts per byte (x1000) in any file
    pub max_parse_ratio: u64,
    /// most symbol lookup steps in one pass
    pub max_lookups: u64,
    /// Some("periodic(p)") / Some("divergent") once a verdict was reached
    pub verdict: Option<String>,
}

thread_local! {
    static STATE: RefCell<Option<Rc<RefCell<PassState>>>> = const { RefCell::new(None) };
}

fn periodic(d: &[u64]) -> Option<usize> {
    let n = d.len();
    for p in 1..=16usize {
        if n < 4 * p {
            continue;
        }
        // the last 3 periods repeat
        let ok = (0..2 * p).all(|i| d[n - 1 - i] == d[n - 1 - i - p]);
        if ok {
            return Some(p);
        }
    }
    None
}

/// Logical clock inside one pass: tokens emitted. Calibrated against the workloads: the largest pass of
/// any envsim corpus project emits fewer than 5 000 tokens (`max_tokens_emitted_in_one_pass` in the C06
/// evidence); mutated lspsim buffers reach 60 000-100 000 (a macro that, after a lost brace, invokes itself
/// 32 levels deep around an import) and are still done in milliseconds - a budget of 60 000 was a false alarm of
/// the thorough C14 tier (1 history in 300 000). 1 000 000 is ten times the largest legitimate pass seen. An
/// expansion that feeds itself AND slows down as it goes may hit the supervisor's watchdog (a harness error, no
/// verdict) before it gets here; that is the price of never flagging a pass that would have finished.
pub const WORK_BUDGET: u64 = 1_000_000;
pub const WORK_BUDGET_MARKER: &str = "VERIF-WORK-BUDGET";

/// Logical clock of the parser: attempts to parse a statement or an expression factor, per file. A parser that
/// is linear in the size of its input makes a bounded number of attempts per byte (`max_parse_attempts_per_byte`
/// in the C06 evidence is the largest ratio any workload file reached); one that backtracks exponentially in
/// the nesting depth passes any such bound at a depth of two dozen. Budget per file:
/// PARSE_BUDGET_BASE + PARSE_BUDGET_PER_BYTE * length.
pub const PARSE_BUDGET_BASE: u64 = 200_000;
pub const PARSE_BUDGET_PER_BYTE: u64 = 2_000;
pub const PARSE_BUDGET_MARKER: &str = "VERIF-PARSE-BUDGET";

/// A third logical clock inside a pass: steps of symbol lookups (one per scope a lookup visits). It exists for the
/// expansions that feed themselves AND slow down as they go: when scopes nest without end, every token costs more
/// lookups than the one before, the token clock above hardly moves any more, and this one races.
/// `max_lookup_steps_in_one_pass` in the C06 and C14 evidence is the most any workload needs; the budget is
/// far above it.
pub const LOOKUP_BUDGET: u64 = 50_000_000;
pub const LOOKUP_BUDGET_MARKER: &str = "VERIF-LOOKUP-BUDGET";

pub fn install() {
    verif_hooks::set_lookup_budget(
        std::env::var("VERIF_LOOKUP_BUDGET")
            .ok()
            .and_then(|v| v.parse().ok())
            .unwrap_or(LOOKUP_BUDGET),
    );
    let _ = verif_hooks::take_max_lookups();
    if std::env::var("VERIF_PARSE_BUDGET").ok().as_deref() == Some("off") {
        mos_core::parser::verif_hooks::set_parse_budget(0, 0);
    } else {
        mos_core::parser::verif_hooks::set_parse_budget(PARSE_BUDGET_BASE, PARSE_BUDGET_PER_BYTE);
    }
    let _ = mos_core::parser::verif_hooks::take_max_ratio();
    verif_hooks::set_work_budget(
        std::env::var("VERIF_WORK_BUDGET")
            .ok()
            .and_then(|v| v.parse().ok())
            .unwrap_or(WORK_BUDGET),
    );
    let st = Rc::new(RefCell::new(PassState::default()));
    STATE.with(|s| *s.borrow_mut() = Some(st.clone()));
    verif_hooks::set_observer(Some(Box::new(move |pass: usize, digest: u64| {
        let mut s = st.borrow_mut();
        if pass == 0 {
            s.digests.clear();
            s.invocations += 1;
        }
        s.total_passes += 1;
        s.max_work = s.max_work.max(verif_hooks::work_done());
        if s.digests.len() < 64 {
            s.digests.push(digest);
        } else {
            s.digests.remove(0);
            s.digests.push(digest);
        }
        if pass + 1 > s.max_passes {
            s.max_passes = pass + 1;
        }
        if pass + 1 >= PERIODIC_MIN_PASSES {
            if let Some(p) = periodic(&s.digests) {
                s.verdict = Some(format!("periodic({})", p));
                return true;
            }
        }
        if pass + 1 >= DIVERGENT_PASSES {
            s.verdict = Some("divergent".into());
            return true;
        }
        false
    })));
}

pub fn uninstall() -> PassState {
    verif_hooks::set_observer(None);
    verif_hooks::set_work_budget(0);
    mos_core::parser::verif_hooks::set_parse_budget(0, 0);
    let ratio = mos_core::parser::verif_hooks::take_max_ratio();
    let mut st = STATE
        .with(|s| s.borrow_mut().take())
        .map(|rc| rc.borrow().clone())
        .unwrap_or_default();
    st.max_parse_ratio = ratio;
    st.max_lookups = verif_hooks::take_max_lookups();
    verif_hooks::set_lookup_budget(0);
    st
}

/// Returns (and clears) a non-termination verdict reached since the last call.
pub fn take_verdict() -> Option<String> {
    STATE.with(|s| {
        s.borrow()
            .as_ref()
            .and_then(|rc| rc.borrow_mut().verdict.take())
    })
}

pub fn snapshot() -> PassState {
    STATE
        .with(|s| s.borrow().as_ref().map(|rc| rc.borrow().clone()))
        .unwrap_or_default()
}
