//! Workload for lspsim: file variants and edit scripts. Workload, not a searched
//! input space: the searched space is the *history* (order and kind of events,
//! positions, disk states), see DESIGN.md C14.

use mos_simrt::rng::Rng;

pub const MAIN_VARIANTS: &[&str] = &[
    // 0: imports two files, macro, scopes, test
    r#".import * from "other.asm"
.import helper as h from "third.asm"

/// The entry point
/// of the program
start: {
    lda #VALUE
    sta data
    jsr other_routine
    jsr h
    fill(data, 3)
    rts
}

.const VALUE = 42
.var counter = 1

data: .byte 1, 2, 3

.macro fill(addr, n) {
    ldx #n
    {
        sta addr, x
        dex
        bne -
    }
}

.test "basic" {
    lda #1
    .assert cpu.a == 1
    brk
}
"#,
    // 1: single import, nested scopes, super, if/else, loop
    r#".import * from "other.asm"

outer: {
    inner: {
        jmp inner
        jmp super.inner
    }
    lda outer.inner
}

.const FLAG = 1
.if defined(FLAG) {
    nop
    lda #other_value
} else {
    brk
}

.loop 3 {
    lda #index
    sta $0400 + index
}

jsr other_routine

.test "uses_other" {
    lda #other_value
    .assert cpu.a == other_value
    brk
}
"#,
    // 2: no imports, multi-byte characters in strings and comments
    r#"// héllo wörld ✓ comment
start:
    lda #<message // ✓✓
    ldx #>message
    rts
message: .text "héllo ✓ wörld"
.const GREETING = "hé"
after: nop
"#,
    // 3: import with `as` scope and parameter block, segments
    r#".define segment {
    name = "code"
    start = $c000
}
.define segment {
    name = "data"
    start = $2000
}
.segment "code" {
    entry: jsr lib.other_routine
    lda lib.other_value
    rts
}
.segment "data" {
    table: .byte 1, 2, 3
}
.import * as lib from "other.asm"
.import helper from "third.asm" {
    .const PARAM = 3
}
"#,
    // 4: errors - undefined identifier and unknown macro
    r#".import * from "other.asm"
start:
    lda nothing_here
    no_such_macro(1)
    jsr other_routine
    rts
.test "in_broken_main" {
    brk
}
"#,
    // 5: syntactically broken
    r#".import * from "other.asm"
start: {
    lda #
    sta (
"#,
    // 6: empty
    "",
    // 7: tests only
    r#".test "a" {
    lda #1
    .assert cpu.a == 1
    brk
}
.test "b" {
    .trace (cpu.a)
    .assert 1 == 2 "nope"
    brk
}
"#,
    // 8: every expression-evaluating construct with a name that is shadowed (root, scope, macro argument)
    r#".define segment { name = "a" start = $1000 }
.define segment { name = "b" start = $2000 }
.const seg = "a"
.const n = 2
.const base = $3000

foo: {
    .const seg = "b"
    .const n = 3
    .const base = $4000
    .segment seg { lbl: nop }
    .loop n { nop }
    .if n == 3 { lda #n } else { lda #0 }
    .align n * 2
    lda base
    .text "{seg}"
}

.macro put(seg, n) {
    .segment seg { nop }
    .loop n { inx }
}

put("a", 1)
.segment seg { root_lbl: lda #n }
lda foo.base
.import * from "other.asm"
"#,
    // 9: the same shapes split over scopes that import, with a test and interpolated names
    r#".import * as lib from "other.asm"
.const which = "lo"
.define segment { name = "lo" start = $0800 }
.define segment { name = "hi" start = $c000 }
outer: {
    .const which = "hi"
    inner: {
        .segment which { in_hi: lda #1 }
        .segment "{which}" { also_hi: rts }
    }
    .segment super.which { in_lo: lda #2 }
}
.segment which {
    at_root: jsr lib.other_routine
}
.test "shadow" {
    .const which = 7
    lda #which
    .assert cpu.a == which
    brk
}
"#,
];

pub const OTHER_VARIANTS: &[&str] = &[
    r#"/// A routine in the other file
other_routine: {
    lda #other_value
    rts
}
.const other_value = 7
.test "in_other" {
    jsr other_routine
    .assert cpu.a == 7
    brk
}
"#,
    r#"other_routine:
    lda qux
    rts
.const other_value = 7
"#,
    r#"other_routine: nop
.const other_value = 8
.import helper as nested_helper from "third.asm"
"#,
    r#"other_routine: {
    lda #
"#,
    "// nothing of interest ✓\n",
];

pub const THIRD_VARIANTS: &[&str] = &[
    r#"helper: {
    inc $d020
    rts
}
"#,
    r#"helper:
    .if defined(PARAM) {
        lda #PARAM
    }
    rts
helper2: rts
"#,
    "helper: rts\n.byte 1,\n",
];

pub const FILES: &[&str] = &["main.asm", "other.asm", "third.asm"];

/// everything the editor may open as a document: the source files, the project file and a
/// document that has no file (and no `file:` URI) yet
pub const DOCS: &[&str] = &[
    "main.asm",
    "other.asm",
    "third.asm",
    "mos.toml",
    "untitled:Untitled-1",
    // a new document the editor has already given a name in the project directory, not saved yet: same path
    // component as the entry point, another document
    "untitled:/ws/main.asm",
];

pub const TOML_VARIANTS: &[&str] = &[
    "[build]\nentry = \"main.asm\"\n",
    "[build]\nentry = \"other.asm\"\n",
    "[build]\nentry = \"third.asm\"\n",
    "[build]\nentry = \"missing.asm\"\n",
    "[build]\nentry = \"main.asm\"\nlisting = true\n\n[formatting]\nmnemonics.casing = \"uppercase\"\n",
    "[build]\nentry = \n",
    "",
    "[build\n",
];

pub fn variants_of(file: &str) -> &'static [&'static str] {
    match file {
        "main.asm" | "untitled:/ws/main.asm" => MAIN_VARIANTS,
        "other.asm" => OTHER_VARIANTS,
        "mos.toml" => TOML_VARIANTS,
        _ => THIRD_VARIANTS,
    }
}

const SNIPPETS: &[&str] = &[
    "nop\n",
    "lda #\n",
    "{\n",
    "}\n",
    ".import * from \"other.asm\"\n",
    ".import * from \"third.asm\"\n",
    ".import helper from \"third.asm\"\n",
    "foo: rts\n",
    ".const Q = \n",
    "jsr other_routine\n",
    "// ✓ comment\n",
    ".text \"é✓\"\n",
    "lda unknown_thing\n",
    "start2: { jmp start2 }\n",
    ".macro m(a) { lda #a }\nm(1)\n",
    ".test \"t\" { brk }\n",
    "/* open comment\n",
    "\"\n",
];

fn char_boundaries(s: &str) -> Vec<usize> {
    let mut v: Vec<usize> = s.char_indices().map(|(i, _)| i).collect();
    v.push(s.len());
    v
}

/// One textual mutation of `text` (always valid UTF-8).
pub fn mutate(rng: &mut Rng, text: &str) -> String {
    let lines: Vec<&str> = text.split_inclusive('\n').collect();
    match rng.below(8) {
        // truncate at a char boundary (typing in progress)
        0 => {
            let b = char_boundaries(text);
            text[..b[rng.below(b.len())]].to_string()
        }
        // delete a line
        1 if !lines.is_empty() => {
            let i = rng.below(lines.len());
            lines
                .iter()
                .enumerate()
                .filter(|(j, _)| *j != i)
                .map(|(_, l)| *l)
                .collect()
        }
        // duplicate a line
        2 if !lines.is_empty() => {
            let i = rng.below(lines.len());
            let mut out = String::new();
            for (j, l) in lines.iter().enumerate() {
                out.push_str(l);
                if j == i {
                    if !l.ends_with('\n') {
                        out.push('\n');
                    }
                    out.push_str(l);
                }
            }
            out
        }
        // insert a snippet at a line start
        3 | 4 => {
            let i = rng.below(lines.len() + 1);
            let mut out = String::new();
            for (j, l) in lines.iter().enumerate() {
                if j == i {
                    out.push_str(rng.pick_str(SNIPPETS));
                }
                out.push_str(l);
            }
            if i == lines.len() {
                if !out.is_empty() && !out.ends_with('\n') {
                    out.push('\n');
                }
                out.push_str(rng.pick_str(SNIPPETS));
            }
            out
        }
        // delete a character range
        5 if !text.is_empty() => {
            let b = char_boundaries(text);
            let i = rng.below(b.len());
            let j = (i + 1 + rng.below(6)).min(b.len() - 1);
            format!("{}{}", &text[..b[i]], &text[b[j.max(i)]..])
        }
        // rename an identifier textually
        6 => {
            let ids = [
                "other_routine",
                "start",
                "VALUE",
                "data",
                "helper",
                "inner",
                "other_value",
            ];
            let id = rng.pick(&ids[..]);
            text.replace(id, &format!("{}_x", id))
        }
        // remove the first import line
        _ => {
            let mut removed = false;
            lines
                .iter()
                .filter(|l| {
                    if !removed && l.trim_start().starts_with(".import") {
                        removed = true;
                        false
                    } else {
                        true
                    }
                })
                .cloned()
                .collect()
        }
    }
}

/// A typing sequence from `from` towards `to`: intermediate texts that pass
/// through syntactically broken states (common prefix kept, the rest of `to`
/// typed in chunks).
pub fn typing_sequence(rng: &mut Rng, from: &str, to: &str, max_steps: usize) -> Vec<String> {
    let common = from
        .char_indices()
        .zip(to.char_indices())
        .take_while(|((_, a), (_, b))| a == b)
        .map(|((i, c), _)| i + c.len_utf8())
        .last()
        .unwrap_or(0);
    let rest: Vec<(usize, char)> = to[common..].char_indices().collect();
    let mut out = vec![];
    if rest.is_empty() {
        out.push(to.to_string());
        return out;
    }
    let steps = max_steps.max(1).min(rest.len());
    let mut cuts: Vec<usize> = (0..steps - 1).map(|_| rng.below(rest.len())).collect();
    cuts.sort();
    cuts.dedup();
    for c in cuts {
        let end = common + rest[c].0;
        out.push(to[..end].to_string());
    }
    out.push(to.to_string());
    out
}

/// Interesting positions in `text`, as (line, byte column, kind).
pub fn positions(text: &str) -> Vec<(u32, u32, &'static str)> {
    let mut out = vec![];
    for (ln, line) in text.split('\n').enumerate() {
        let bytes = line.as_bytes();
        let mut i = 0;
        let mut in_string = false;
        while i < bytes.len() {
            let c = bytes[i];
            if c == b'"' {
                in_string = !in_string;
                out.push((ln as u32, i as u32, "quote"));
                i += 1;
                continue;
            }
            if c >= 0x80 {
                // multi-byte char: start byte and (if any) a continuation byte
                if c >= 0xc0 {
                    out.push((ln as u32, i as u32, "multibyte_start"));
                    out.push((ln as u32, (i + 1) as u32, "multibyte_inside"));
                }
                i += 1;
                continue;
            }
            if c == b'/' && i + 1 < bytes.len() && bytes[i + 1] == b'/' {
                out.push((ln as u32, (i + 2).min(bytes.len()) as u32, "comment"));
                // still scan the rest for multi-byte chars
                i += 2;
                continue;
            }
            if c.is_ascii_alphabetic() || c == b'_' {
                let start = i;
                while i < bytes.len() && (bytes[i].is_ascii_alphanumeric() || bytes[i] == b'_') {
                    i += 1;
                }
                let kind = if in_string { "in_string" } else { "ident" };
                out.push((ln as u32, start as u32, kind));
                out.push((ln as u32, ((start + i) / 2) as u32, kind));
                out.push((ln as u32, i as u32, kind));
                continue;
            }
            if c == b'.' {
                out.push((ln as u32, i as u32, "dot"));
                out.push((ln as u32, (i + 1) as u32, "after_dot"));
            }
            if c == b'-' || c == b'+' || c == b'{' || c == b'}' || c == b'#' || c == b'$' {
                out.push((ln as u32, i as u32, "punct"));
            }
            i += 1;
        }
        out.push((ln as u32, bytes.len() as u32, "eol"));
    }
    out
}
