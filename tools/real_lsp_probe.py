#!/usr/bin/env python3
"""Ground-truth calibration (NOT a registered check, real time and real sockets, not deterministic):
drives the real `mos lsp` binary built from /repo through a few of the C20 grid cells and prints the
exit status. Used to confirm that what threadsim calls clean / broken matches the real process.
usage: real_lsp_probe.py /path/to/mos"""
import json, os, socket, subprocess, sys, tempfile, time

MOS = sys.argv[1]
PROG = '.test "t" {\n    ldx #0\nouter:\n    ldy #0\ninner:\n    iny\n    bne inner\n    inx\n    bne outer\n    brk\n}\n'

def frame(o):
    b = json.dumps(o).encode()
    return b"Content-Length: %d\r\n\r\n" % len(b) + b

class Dap:
    def __init__(self, port):
        for _ in range(100):
            try:
                self.s = socket.create_connection(("127.0.0.1", port), timeout=5)
                break
            except OSError:
                time.sleep(0.05)
        self.seq = 0
        self.buf = b""
    def send(self, cmd, args=None):
        self.seq += 1
        m = {"type": "request", "seq": self.seq, "command": cmd}
        if args is not None:
            m["arguments"] = args
        self.s.sendall(frame(m))
    def read(self):
        while b"\r\n\r\n" not in self.buf:
            self.buf += self.s.recv(65536)
        head, rest = self.buf.split(b"\r\n\r\n", 1)
        n = int(head.split(b": ")[1])
        while len(rest) < n:
            rest += self.s.recv(65536)
        self.buf = rest[n:]
        return json.loads(rest[:n])
    def request(self, cmd, args=None):
        self.send(cmd, args)
        while True:
            m = self.read()
            if m.get("type") == "response" and m.get("request_seq") == self.seq:
                return m
    def wait_event(self, name):
        while True:
            m = self.read()
            if m.get("type") == "event" and m.get("event") == name:
                return m

def run(state, variant, port):
    ws = tempfile.mkdtemp()
    open(os.path.join(ws, "main.asm"), "w").write(PROG)
    if os.environ.get("NO_TOML") is None:
        open(os.path.join(ws, "mos.toml"), "w").write('[build]\nentry = "main.asm"\n')
    p = subprocess.Popen([MOS, "lsp", "-p", str(port)], cwd=ws, stdin=subprocess.PIPE, stdout=subprocess.PIPE, stderr=subprocess.DEVNULL)
    p.stdin.write(frame({"jsonrpc": "2.0", "id": 1, "method": "initialize", "params": {"capabilities": {}}})); p.stdin.flush()
    time.sleep(0.2)
    p.stdin.write(frame({"jsonrpc": "2.0", "method": "initialized", "params": {}}))
    uri = "file://" + os.path.join(ws, "main.asm")
    p.stdin.write(frame({"jsonrpc": "2.0", "method": "textDocument/didOpen", "params": {"textDocument": {"uri": uri, "languageId": "asm", "version": 0, "text": PROG}}})); p.stdin.flush()
    d = None
    if state != "no_debugger":
        d = Dap(port)
        d.request("initialize", {"clientID": "probe", "linesStartAt1": True, "columnsStartAt1": True})
        if state in ("running", "breakpoint", "paused", "disconnected"):
            d.request("launch", {"workspace": ws, "testRunner": {"testCaseName": "t"}})
            if state == "breakpoint":
                d.request("setBreakpoints", {"source": {"path": os.path.join(ws, "main.asm")}, "breakpoints": [{"line": 6}]})
            d.request("configurationDone")
            if state == "breakpoint":
                d.wait_event("stopped")
            if state == "paused":
                time.sleep(0.05); d.request("pause", {"threadId": 1}); d.wait_event("stopped")
            if state == "disconnected":
                time.sleep(0.05); d.request("disconnect", {})
    time.sleep(0.1)
    if variant == "shutdown_exit":
        p.stdin.write(frame({"jsonrpc": "2.0", "id": 2, "method": "shutdown", "params": None})); p.stdin.flush()
        time.sleep(0.1)
        p.stdin.write(frame({"jsonrpc": "2.0", "method": "exit", "params": None})); p.stdin.flush()
    p.stdin.close()
    try:
        rc = p.wait(timeout=5)
    except subprocess.TimeoutExpired:
        rc = "HANG"; p.kill()
    return rc

port = 16400
bad = 0
for state in ("no_debugger", "attached_idle", "running", "breakpoint", "paused", "disconnected"):
    for variant in ("shutdown_exit", "pipe_close"):
        port += 1
        rc = run(state, variant, port)
        print(f"{state:14} {variant:14} exit status {rc}")
        if rc != 0:
            bad += 1
print("RESULT:", "all clean" if bad == 0 else f"{bad} cells not clean")
