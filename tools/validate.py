#!/usr/bin/env python3
"""Validate MANIFEST.json and every evidence file against the given schemas (run with python3-vt)."""
import json, sys, glob
import jsonschema
ok = True
m = json.load(open('/verif/MANIFEST.json'))
jsonschema.validate(m, json.load(open('/root/.vp/MANIFEST.schema.json')))
es = json.load(open('/root/.vp/EVIDENCE.schema.json'))
for c in m['checks']:
    p = '/verif/' + c['evidence_file']
    try:
        jsonschema.validate(json.load(open(p)), es)
        print('ok', p)
    except Exception as e:
        ok = False
        print('INVALID', p, str(e)[:300])
ids = {json.loads(l)['id'] for l in open('/verif/properties.jsonl')}
claimed = {c['property_id'] for c in m['checks']}
na = {n['property_id'] for n in m.get('not_applicable', [])}
if claimed | na != ids or claimed & na:
    ok = False
    print('property partition wrong', sorted(ids - claimed - na), sorted(claimed & na))
print('manifest ok' if ok else 'PROBLEMS')
sys.exit(0 if ok else 1)
