#!/usr/bin/env python3
"""One-off: extract source fragments from the pinned repository's test-suite and documentation
into /verif/corpus/fragments.json (committed; the harness embeds it). Not run by any check."""
import re, json, glob, sys

def rust_strings_after(src, names):
    out = []
    for m in re.finditer(r'\b(' + '|'.join(names) + r')\s*\(\s*', src):
        i = m.end()
        # .add("name", "text"): skip the first literal
        lits = []
        while len(lits) < 2:
            if src.startswith('r#"', i):
                j = src.index('"#', i + 3)
                lits.append(src[i + 3:j]); i = j + 2
            elif src.startswith('r"', i):
                j = src.index('"', i + 2)
                lits.append(src[i + 2:j]); i = j + 1
            elif src.startswith('"', i):
                j = i + 1; buf = []
                while src[j] != '"':
                    if src[j] == '\\':
                        c = src[j + 1]
                        if c == 'n': buf.append('\n'); j += 2
                        elif c == 't': buf.append('\t'); j += 2
                        elif c == 'r': buf.append('\r'); j += 2
                        elif c == '"': buf.append('"'); j += 2
                        elif c == '\\': buf.append('\\'); j += 2
                        elif c == '\n':
                            j += 2
                            while src[j] in ' \t\n': j += 1
                        else: buf.append(c); j += 2
                    else:
                        buf.append(src[j]); j += 1
                lits.append(''.join(buf)); i = j + 1
            else:
                break
            mm = re.match(r'\s*,\s*', src[i:])
            if not mm: break
            i += mm.end()
        if not lits: continue
        if m.group(1) == 'add':
            if len(lits) == 2: out.append(lits[1])
        else:
            out.append(lits[0])
    return out

frags = []
for f in ['/repo/mos-core/src/codegen/mod.rs', '/repo/mos-core/src/parser/mod.rs', '/repo/mos-core/src/formatting/mod.rs',
          '/repo/mos-core/src/io/listing.rs', '/repo/mos-core/src/codegen/analysis.rs', '/repo/mos/src/test_runner/mod.rs',
          '/repo/mos/src/lsp/rename.rs', '/repo/mos/src/lsp/references.rs', '/repo/mos/src/lsp/completion.rs',
          '/repo/mos/src/lsp/hover.rs', '/repo/mos/src/lsp/semantic_highlighting.rs']:
    src = open(f).read()
    k = src.find('#[cfg(test)]')
    if k < 0: continue
    frags += rust_strings_after(src[k:], ['test_codegen', 'test_codegen_with_options', 'check', 'check_err', 'check_ignore_err',
                                          'check_err_span', 'add', 'get_runner', 'parse_expression'])
for f in glob.glob('/repo/docs/src/guide/*.md'):
    for m in re.finditer(r'```asm6502\n(.*?)```', open(f).read(), re.S):
        frags.append(m.group(1))
seen = set(); out = []
for s in frags:
    if s in seen or len(s) > 4000: continue
    seen.add(s); out.append(s)
json.dump(out, open('/verif/corpus/fragments.json', 'w'), indent=0, ensure_ascii=False)
print(len(out), 'fragments')
