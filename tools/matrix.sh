#!/bin/bash
# usage: tools/matrix.sh            (about 45 minutes)
# Runs every seeded change under /verif/seeded through the quick check of its property
# (apply to /repo, check, undo) and writes seeded/MATRIX.txt. Every line must say exit=1.
cd /verif
for d in seeded/c*/; do
  id=$(basename "$d"); P=$(echo "${id:0:3}" | tr a-z A-Z)
  if git -C /repo apply --check "/verif/seeded/$id/patch.diff" 2>/dev/null; then
    # c06a makes thousands of cases run into the file-read budget (200 000 reads each): the first 4 000 cases of the
    # same batch (case k is a function of the seed and k alone) make the point in a tenth of the time
    extra=""; [ "$id" = c06a ] && extra="--runs 4000"
    # (c06m: every runaway case needs 50 000 000 lookup steps to be called, half an hour for the full batch)
    [ "$id" = c06m ] && extra="--runs 4000"
    tools/try_seeded.sh "$id" "$P" $extra 2>&1 | grep "^seeded="
  else
    echo "seeded=$id PATCH-DOES-NOT-APPLY (rebase it: git apply --3way in a scratch worktree)"
  fi
done | tee seeded/MATRIX.txt
# leave evidence of the unchanged tree behind
for p in C06 C10 C14 C19 C20; do ./check $p --tier quick >/dev/null 2>&1; done
