#!/bin/bash
# usage: tools/try_seeded.sh <seeded-id> <property> [extra check args]
# Applies /verif/seeded/<id>/patch.diff to /repo, runs the property's check, undoes the patch.
set -u
id="$1"; prop="$2"; shift 2
cd /verif
if ! git -C /repo diff --quiet; then echo "/repo has uncommitted changes" >&2; exit 2; fi
git -C /repo apply "/verif/seeded/$id/patch.diff" || exit 2
start=$(date +%s)
./check "$prop" --tier quick "$@" > "seeded/$id/check_output.txt" 2>&1
rc=$?
end=$(date +%s)
git -C /repo apply -R "/verif/seeded/$id/patch.diff" 2>/dev/null || git -C /repo checkout -- .
git -C /repo checkout -- . 2>/dev/null
git -C /repo status --short | grep -v '^??' | head -3
echo "seeded=$id property=$prop exit=$rc seconds=$((end-start))"
grep -E "^VIOLATION|^KNOWN-FINDING|harness error" "seeded/$id/check_output.txt" | head -5
find /verif/replays -name '*.json' -delete
exit 0
